// vinst is /verif's source-to-source instrumenter. It is applied to a scratch copy of the
// repository only (never to /repo). Arguments are "<mode>:<file>[:<func,func,...>]":
//
//	select:<file>        seeded select pre-pass for every select with >= 2 communication cases
//	mutex:<file>         x.Lock()/RLock() -> vsel.Lock(ctx,&x,..), yields after Unlock()/RUnlock()
//	stmt:<file>:<funcs>  vsel.Yield(ctx, site) before every statement of the listed functions
//	                     (method names are written Recv.Name or just Name)
//
// Several modes may name the same file. Any construct that cannot be rewritten safely is left
// alone and reported on stdout as "SKIPPED"; parse failures exit non-zero.
package main

import (
	"bytes"
	"fmt"
	"go/ast"
	"go/format"
	"go/parser"
	"go/token"
	"os"
	"reflect"
	"sort"
	"strconv"
	"strings"
)

const vselPath = "github.com/gordian-engine/gordian/internal/vsel"

type fileModes struct {
	sel   bool
	mutex bool
	stmt  map[string]bool
	cases map[string]bool
}

var counter int

func main() {
	files := map[string]*fileModes{}
	var order []string
	for _, a := range os.Args[1:] {
		parts := strings.SplitN(a, ":", 3)
		if len(parts) < 2 {
			fmt.Fprintln(os.Stderr, "bad argument", a)
			os.Exit(2)
		}
		fm := files[parts[1]]
		if fm == nil {
			fm = &fileModes{stmt: map[string]bool{}, cases: map[string]bool{}}
			files[parts[1]] = fm
			order = append(order, parts[1])
		}
		switch parts[0] {
		case "select":
			fm.sel = true
		case "mutex":
			fm.mutex = true
		case "stmt":
			if len(parts) < 3 {
				fmt.Fprintln(os.Stderr, "stmt mode needs functions:", a)
				os.Exit(2)
			}
			for _, f := range strings.Split(parts[2], ",") {
				fm.stmt[f] = true
			}
		case "cases":
			if len(parts) < 3 {
				fmt.Fprintln(os.Stderr, "cases mode needs functions:", a)
				os.Exit(2)
			}
			for _, f := range strings.Split(parts[2], ",") {
				fm.cases[f] = true
			}
		default:
			fmt.Fprintln(os.Stderr, "unknown mode", parts[0])
			os.Exit(2)
		}
	}
	sort.Strings(order)
	for _, path := range order {
		if _, err := os.Stat(path); err != nil {
			// A listed file that does not exist (renamed by a change under test) is reported, not fatal.
			fmt.Printf("%s: MISSING, not instrumented\n", path)
			continue
		}
		processFile(path, files[path])
	}
}

func processFile(path string, fm *fileModes) {
	fset := token.NewFileSet()
	f, err := parser.ParseFile(fset, path, nil, parser.ParseComments)
	if err != nil {
		fmt.Fprintln(os.Stderr, err)
		os.Exit(1)
	}
	// Keep build constraints and the package doc; drop other comments (positions get stale).
	var keep []*ast.CommentGroup
	for _, cg := range f.Comments {
		if cg.End() < f.Package {
			keep = append(keep, cg)
		}
	}
	f.Comments = keep

	r := &rewriter{fset: fset, path: path}
	needCtxImport := false
	for _, d := range f.Decls {
		fd, ok := d.(*ast.FuncDecl)
		if !ok || fd.Body == nil {
			continue
		}
		name := fd.Name.Name
		full := name
		if fd.Recv != nil && len(fd.Recv.List) > 0 {
			full = recvName(fd.Recv.List[0].Type) + "." + name
		}
		wantStmt := fm.stmt[name] || fm.stmt[full] || fm.stmt["*"]
		wantCases := fm.cases[name] || fm.cases[full] || fm.cases["*"]
		if fm.mutex || wantStmt || wantCases {
			r.ctxExpr = ctxFor(fd)
			if r.ctxExpr == "context.Background()" {
				needCtxImport = true
			}
		}
		if wantStmt {
			fd.Body.List = r.stmtYields(fd.Body.List, full)
		}
		if fm.mutex {
			r.mutexBlock(fd.Body)
		}
		if wantCases {
			r.caseParks(fd.Body, full)
		}
		r.preSelect = wantCases
		r.fn = full
		if fm.sel {
			fd.Body.List = r.selList(fd.Body.List)
		}
	}
	if r.nSel+r.nMutex+r.nStmt+r.nCases > 0 {
		addImport(f, vselPath)
		if needCtxImport && !hasImport(f, "context") {
			addImport(f, "context")
		}
	}
	var buf bytes.Buffer
	if err := format.Node(&buf, fset, f); err != nil {
		fmt.Fprintln(os.Stderr, path, err)
		os.Exit(1)
	}
	if err := os.WriteFile(path, buf.Bytes(), 0o644); err != nil {
		fmt.Fprintln(os.Stderr, err)
		os.Exit(1)
	}
	fmt.Printf("%s: selects=%d (skipped %d) locksites=%d stmtyields=%d caseparks=%d\n", path, r.nSel, r.nSkip, r.nMutex, r.nStmt, r.nCases)
}

func recvName(e ast.Expr) string {
	switch x := e.(type) {
	case *ast.StarExpr:
		return recvName(x.X)
	case *ast.Ident:
		return x.Name
	case *ast.IndexExpr:
		return recvName(x.X)
	case *ast.IndexListExpr:
		return recvName(x.X)
	}
	return "?"
}

func hasImport(f *ast.File, p string) bool {
	for _, im := range f.Imports {
		if im.Path.Value == strconv.Quote(p) {
			return true
		}
	}
	return false
}

func addImport(f *ast.File, p string) {
	if hasImport(f, p) {
		return
	}
	spec := &ast.ImportSpec{Path: &ast.BasicLit{Kind: token.STRING, Value: strconv.Quote(p)}}
	f.Decls = append([]ast.Decl{&ast.GenDecl{Tok: token.IMPORT, Specs: []ast.Spec{spec}}}, f.Decls...)
	f.Imports = append(f.Imports, spec)
}

// ctxFor returns an expression naming the function's context parameter, renaming a blank or
// unnamed one to vctx; functions without one get context.Background().
func ctxFor(fd *ast.FuncDecl) string {
	if fd.Type.Params == nil {
		return "context.Background()"
	}
	for _, fl := range fd.Type.Params.List {
		se, ok := fl.Type.(*ast.SelectorExpr)
		if !ok {
			continue
		}
		if id, ok := se.X.(*ast.Ident); !ok || id.Name != "context" || se.Sel.Name != "Context" {
			continue
		}
		if len(fl.Names) == 0 {
			// unnamed parameters: all must become named
			for i, o := range fd.Type.Params.List {
				if len(o.Names) == 0 {
					n := "_"
					if o == fl {
						n = "vctx"
					}
					_ = i
					o.Names = []*ast.Ident{ast.NewIdent(n)}
				}
			}
			return "vctx"
		}
		if fl.Names[0].Name == "_" {
			fl.Names[0] = ast.NewIdent("vctx")
			return "vctx"
		}
		return fl.Names[0].Name
	}
	return "context.Background()"
}

type rewriter struct {
	fset    *token.FileSet
	path    string
	ctxExpr string
	nSel    int
	nSkip   int
	nMutex  int
	nStmt   int
	nCases  int

	preSelect bool // park before each select of the current function (cases mode)
	fn        string
}

func (r *rewriter) site(p token.Pos) string {
	return fmt.Sprintf("%s:%d", shortPath(r.path), r.fset.Position(p).Line)
}

func shortPath(p string) string {
	parts := strings.Split(p, "/")
	if len(parts) > 2 {
		parts = parts[len(parts)-2:]
	}
	return strings.Join(parts, "/")
}

func parseExpr(s string) ast.Expr {
	e, err := parser.ParseExpr(s)
	if err != nil {
		panic(err)
	}
	return e
}

func yieldStmt(ctxExpr, site string) ast.Stmt {
	return &ast.ExprStmt{X: &ast.CallExpr{
		Fun:  &ast.SelectorExpr{X: ast.NewIdent("vsel"), Sel: ast.NewIdent("Yield")},
		Args: []ast.Expr{parseExpr(ctxExpr), &ast.BasicLit{Kind: token.STRING, Value: strconv.Quote(site)}},
	}}
}

// ---------------------------------------------------------------- stmt mode

func (r *rewriter) stmtYields(list []ast.Stmt, fn string) []ast.Stmt {
	var out []ast.Stmt
	for _, s := range list {
		switch x := s.(type) {
		case *ast.LabeledStmt, *ast.DeclStmt:
			// no yield directly before declarations/labels (keeps "declared and not used" and goto rules simple)
		default:
			_ = x
			out = append(out, yieldStmt(r.ctxExpr, fn+"@"+r.site(s.Pos())))
			r.nStmt++
		}
		r.stmtInner(s, fn)
		out = append(out, s)
	}
	return out
}

func (r *rewriter) stmtInner(s ast.Stmt, fn string) {
	switch x := s.(type) {
	case *ast.BlockStmt:
		x.List = r.stmtYields(x.List, fn)
	case *ast.IfStmt:
		x.Body.List = r.stmtYields(x.Body.List, fn)
		if x.Else != nil {
			r.stmtInner(x.Else, fn)
		}
	case *ast.ForStmt:
		x.Body.List = r.stmtYields(x.Body.List, fn)
	case *ast.RangeStmt:
		// no yields inside range loops: over a map their order is not seedable, and the
		// sequence of yield sites would then differ between runs of one seed.
	case *ast.SwitchStmt:
		for _, c := range x.Body.List {
			cc := c.(*ast.CaseClause)
			cc.Body = r.stmtYields(cc.Body, fn)
		}
	case *ast.TypeSwitchStmt:
		for _, c := range x.Body.List {
			cc := c.(*ast.CaseClause)
			cc.Body = r.stmtYields(cc.Body, fn)
		}
	case *ast.SelectStmt:
		for _, c := range x.Body.List {
			cc := c.(*ast.CommClause)
			cc.Body = r.stmtYields(cc.Body, fn)
		}
	case *ast.LabeledStmt:
		r.stmtInner(x.Stmt, fn)
	}
}

// ---------------------------------------------------------------- cases mode

// caseParks inserts vsel.Case(ctx, site, received) as the first statement of every
// communication clause of every select in the function (func literals excluded: they have
// their own context).
func (r *rewriter) caseParks(b *ast.BlockStmt, fn string) {
	ast.Inspect(b, func(n ast.Node) bool {
		switch x := n.(type) {
		case *ast.FuncLit:
			return false
		case *ast.CommClause:
			if x.Comm == nil {
				return true
			}
			var arg ast.Expr = ast.NewIdent("nil")
			if as, ok := x.Comm.(*ast.AssignStmt); ok && as.Tok == token.DEFINE && len(as.Lhs) > 0 {
				if id, ok := as.Lhs[0].(*ast.Ident); ok && id.Name != "_" {
					arg = ast.NewIdent(id.Name)
				}
			}
			call := &ast.ExprStmt{X: &ast.CallExpr{
				Fun:  &ast.SelectorExpr{X: ast.NewIdent("vsel"), Sel: ast.NewIdent("Case")},
				Args: []ast.Expr{parseExpr(r.ctxExpr), &ast.BasicLit{Kind: token.STRING, Value: strconv.Quote(fn + "@" + r.site(x.Pos()))}, arg},
			}}
			x.Body = append([]ast.Stmt{call}, x.Body...)
			r.nCases++
		}
		return true
	})
}

// ---------------------------------------------------------------- mutex mode

func (r *rewriter) mutexBlock(b *ast.BlockStmt) {
	ast.Inspect(b, func(n ast.Node) bool {
		switch x := n.(type) {
		case *ast.FuncLit:
			return true
		case *ast.BlockStmt:
			x.List = r.mutexList(x.List)
		case *ast.CaseClause:
			x.Body = r.mutexList(x.Body)
		case *ast.CommClause:
			x.Body = r.mutexList(x.Body)
		}
		return true
	})
}

func lockCall(s ast.Stmt) (recv ast.Expr, method string, ok bool) {
	es, isES := s.(*ast.ExprStmt)
	if !isES {
		return nil, "", false
	}
	ce, isCE := es.X.(*ast.CallExpr)
	if !isCE || len(ce.Args) != 0 {
		return nil, "", false
	}
	se, isSE := ce.Fun.(*ast.SelectorExpr)
	if !isSE {
		return nil, "", false
	}
	switch se.Sel.Name {
	case "Lock", "RLock", "Unlock", "RUnlock":
		return se.X, se.Sel.Name, true
	}
	return nil, "", false
}

func (r *rewriter) mutexList(list []ast.Stmt) []ast.Stmt {
	var out []ast.Stmt
	for _, s := range list {
		recv, m, ok := lockCall(s)
		if !ok {
			out = append(out, s)
			continue
		}
		site := r.site(s.Pos())
		r.nMutex++
		switch m {
		case "Lock", "RLock":
			out = append(out, &ast.ExprStmt{X: &ast.CallExpr{
				Fun: &ast.SelectorExpr{X: ast.NewIdent("vsel"), Sel: ast.NewIdent(m)},
				Args: []ast.Expr{parseExpr(r.ctxExpr), &ast.UnaryExpr{Op: token.AND, X: recv},
					&ast.BasicLit{Kind: token.STRING, Value: strconv.Quote(site)}},
			}})
		default:
			out = append(out, s, yieldStmt(r.ctxExpr, site+":unlocked"))
		}
	}
	return out
}

// ---------------------------------------------------------------- select mode

func terminates(list []ast.Stmt) bool {
	if len(list) == 0 {
		return false
	}
	switch x := list[len(list)-1].(type) {
	case *ast.ReturnStmt:
		return true
	case *ast.BranchStmt:
		return x.Tok == token.GOTO
	case *ast.ExprStmt:
		if c, ok := x.X.(*ast.CallExpr); ok {
			if id, ok := c.Fun.(*ast.Ident); ok && id.Name == "panic" {
				return true
			}
		}
	case *ast.BlockStmt:
		return terminates(x.List)
	}
	return false
}

func hasUserLabel(n ast.Node) bool {
	found := false
	ast.Inspect(n, func(x ast.Node) bool {
		if l, ok := x.(*ast.LabeledStmt); ok && !strings.HasPrefix(l.Label.Name, "__v") {
			found = true
		}
		return !found
	})
	return found
}

// hasBareBreak reports whether list contains an unlabeled break that would refer to the select
// itself (i.e. not nested in a for/switch/select of its own).
func hasBareBreak(list []ast.Stmt) bool {
	found := false
	var walk func(n ast.Node)
	walk = func(n ast.Node) {
		ast.Inspect(n, func(x ast.Node) bool {
			switch b := x.(type) {
			case *ast.ForStmt, *ast.RangeStmt, *ast.SwitchStmt, *ast.TypeSwitchStmt, *ast.SelectStmt, *ast.FuncLit:
				return false
			case *ast.BranchStmt:
				if b.Tok == token.BREAK && b.Label == nil {
					found = true
				}
			}
			return !found
		})
	}
	for _, s := range list {
		walk(s)
	}
	return found
}

func (r *rewriter) selList(list []ast.Stmt) []ast.Stmt {
	for i, s := range list {
		list[i] = r.selStmt(s)
	}
	return list
}

// selStmt rewrites selects inside s (innermost first) and s itself if it is a select.
func (r *rewriter) selStmt(s ast.Stmt) ast.Stmt {
	switch x := s.(type) {
	case *ast.BlockStmt:
		x.List = r.selList(x.List)
	case *ast.IfStmt:
		x.Body.List = r.selList(x.Body.List)
		if x.Else != nil {
			x.Else = r.selStmt(x.Else)
		}
	case *ast.ForStmt:
		x.Body.List = r.selList(x.Body.List)
	case *ast.RangeStmt:
		x.Body.List = r.selList(x.Body.List)
	case *ast.SwitchStmt:
		for _, c := range x.Body.List {
			cc := c.(*ast.CaseClause)
			cc.Body = r.selList(cc.Body)
		}
	case *ast.TypeSwitchStmt:
		for _, c := range x.Body.List {
			cc := c.(*ast.CaseClause)
			cc.Body = r.selList(cc.Body)
		}
	case *ast.LabeledStmt:
		if _, isSel := x.Stmt.(*ast.SelectStmt); isSel {
			// a labeled select (break L inside): rewrite only its bodies
			sel := x.Stmt.(*ast.SelectStmt)
			for _, c := range sel.Body.List {
				cc := c.(*ast.CommClause)
				cc.Body = r.selList(cc.Body)
			}
			if countComm(sel) >= 2 {
				r.nSkip++
				fmt.Printf("SKIPPED labeled select at %s\n", r.site(sel.Pos()))
			}
		} else {
			x.Stmt = r.selStmt(x.Stmt)
		}
	case *ast.GoStmt:
		r.funcLits(x.Call)
	case *ast.DeferStmt:
		r.funcLits(x.Call)
	case *ast.ExprStmt:
		r.funcLits(x.X)
	case *ast.AssignStmt:
		for _, e := range x.Rhs {
			r.funcLits(e)
		}
	case *ast.ReturnStmt:
		for _, e := range x.Results {
			r.funcLits(e)
		}
	case *ast.SelectStmt:
		for _, c := range x.Body.List {
			cc := c.(*ast.CommClause)
			cc.Body = r.selList(cc.Body)
		}
		return r.rewriteSelect(x)
	}
	return s
}

func (r *rewriter) funcLits(n ast.Node) {
	ast.Inspect(n, func(x ast.Node) bool {
		if fl, ok := x.(*ast.FuncLit); ok {
			fl.Body.List = r.selList(fl.Body.List)
			return false
		}
		return true
	})
}

func countComm(sel *ast.SelectStmt) int {
	n := 0
	for _, c := range sel.Body.List {
		if c.(*ast.CommClause).Comm != nil {
			n++
		}
	}
	return n
}

func (r *rewriter) rewriteSelect(sel *ast.SelectStmt) ast.Stmt {
	ncases := countComm(sel)
	hasDefault := ncases != len(sel.Body.List)
	if ncases < 2 {
		return sel
	}
	if hasDefault {
		// A select with a default never blocks; which ready case it takes is still random, but
		// polling in seeded order and then running the default would change nothing else.
		// Handled like the others: pre-pass, then the original (which may take default).
	}
	if hasUserLabel(sel) {
		r.nSkip++
		fmt.Printf("SKIPPED select with user labels at %s\n", r.site(sel.Pos()))
		return sel
	}
	allTerm := true
	for _, c := range sel.Body.List {
		cc := c.(*ast.CommClause)
		if !terminates(cc.Body) {
			allTerm = false
		}
	}
	counter++
	r.nSel++
	id := strconv.Itoa(counter)
	site := r.site(sel.Pos())
	ord, k, taken := ast.NewIdent("__vord"+id), ast.NewIdent("__vk"+id), ast.NewIdent("__vtaken"+id)
	retryL := ast.NewIdent("__vretry" + id)

	var swCases []ast.Stmt
	idx := 0
	for _, c := range sel.Body.List {
		cc := c.(*ast.CommClause)
		if cc.Comm == nil {
			continue
		}
		body := cloneStmts(cc.Body, "c"+id)
		if !allTerm {
			body = append([]ast.Stmt{&ast.AssignStmt{Lhs: []ast.Expr{taken}, Tok: token.ASSIGN, Rhs: []ast.Expr{ast.NewIdent("true")}}}, body...)
		}
		single := &ast.SelectStmt{Body: &ast.BlockStmt{List: []ast.Stmt{
			&ast.CommClause{Comm: cloneNode(cc.Comm, "c"+id).(ast.Stmt), Body: body},
			&ast.CommClause{Comm: nil},
		}}}
		swCases = append(swCases, &ast.CaseClause{
			List: []ast.Expr{&ast.BasicLit{Kind: token.INT, Value: strconv.Itoa(idx)}},
			Body: []ast.Stmt{single},
		})
		idx++
	}
	orderCall := &ast.AssignStmt{Lhs: []ast.Expr{ord}, Tok: token.DEFINE, Rhs: []ast.Expr{&ast.CallExpr{
		Fun:  &ast.SelectorExpr{X: ast.NewIdent("vsel"), Sel: ast.NewIdent("Order")},
		Args: []ast.Expr{&ast.BasicLit{Kind: token.INT, Value: strconv.Itoa(ncases)}, &ast.BasicLit{Kind: token.STRING, Value: strconv.Quote(site)}},
	}}}
	if r.preSelect {
		// with a context at hand the visit counter is kept per identity (node), so that
		// goroutines of different nodes running at the same time cannot perturb each other
		orderCall.Rhs = []ast.Expr{&ast.CallExpr{
			Fun:  &ast.SelectorExpr{X: ast.NewIdent("vsel"), Sel: ast.NewIdent("OrderCtx")},
			Args: []ast.Expr{parseExpr(r.ctxExpr), &ast.BasicLit{Kind: token.INT, Value: strconv.Itoa(ncases)}, &ast.BasicLit{Kind: token.STRING, Value: strconv.Quote(site)}},
		}}
	}
	kInit := &ast.AssignStmt{Lhs: []ast.Expr{k}, Tok: token.DEFINE, Rhs: []ast.Expr{&ast.BasicLit{Kind: token.INT, Value: "0"}}}
	cond := &ast.BinaryExpr{X: k, Op: token.LSS, Y: &ast.CallExpr{Fun: ast.NewIdent("len"), Args: []ast.Expr{ord}}}
	sw := &ast.SwitchStmt{Tag: &ast.IndexExpr{X: ord, Index: k}, Body: &ast.BlockStmt{List: swCases}}
	var thenB *ast.BlockStmt
	if allTerm {
		thenB = &ast.BlockStmt{List: []ast.Stmt{sw, &ast.IncDecStmt{X: k, Tok: token.INC}, &ast.BranchStmt{Tok: token.GOTO, Label: retryL}}}
	} else {
		thenB = &ast.BlockStmt{List: []ast.Stmt{
			&ast.AssignStmt{Lhs: []ast.Expr{taken}, Tok: token.DEFINE, Rhs: []ast.Expr{ast.NewIdent("false")}},
			sw,
			&ast.IfStmt{Cond: &ast.UnaryExpr{Op: token.NOT, X: taken}, Body: &ast.BlockStmt{List: []ast.Stmt{
				&ast.IncDecStmt{X: k, Tok: token.INC}, &ast.BranchStmt{Tok: token.GOTO, Label: retryL},
			}}},
		}}
	}
	stmts := []ast.Stmt{orderCall, kInit,
		&ast.LabeledStmt{Label: retryL, Stmt: &ast.IfStmt{Cond: cond, Body: thenB, Else: &ast.BlockStmt{List: []ast.Stmt{sel}}}},
	}
	if r.preSelect {
		// the goroutine looks at its channels in a step of its own, when nobody else is running
		pre := &ast.ExprStmt{X: &ast.CallExpr{
			Fun:  &ast.SelectorExpr{X: ast.NewIdent("vsel"), Sel: ast.NewIdent("Case")},
			Args: []ast.Expr{parseExpr(r.ctxExpr), &ast.BasicLit{Kind: token.STRING, Value: strconv.Quote(r.fn + "@" + site + ":select")}, ast.NewIdent("nil")},
		}}
		stmts = append([]ast.Stmt{pre}, stmts...)
	}
	return &ast.BlockStmt{List: stmts}
}

// ---------------------------------------------------------------- deep copy

func cloneStmts(list []ast.Stmt, suffix string) []ast.Stmt {
	out := make([]ast.Stmt, len(list))
	for i, s := range list {
		out[i] = cloneNode(s, suffix).(ast.Stmt)
	}
	return out
}

// cloneNode deep-copies an AST subtree; generated labels/identifiers (prefix __v) get a suffix
// so that the copy can live next to the original in one function.
func cloneNode(n ast.Node, suffix string) ast.Node {
	v := cloneValue(reflect.ValueOf(n), suffix)
	return v.Interface().(ast.Node)
}

func cloneValue(v reflect.Value, suffix string) reflect.Value {
	switch v.Kind() {
	case reflect.Ptr:
		if v.IsNil() {
			return v
		}
		if v.Type() == reflect.TypeOf((*ast.Object)(nil)) || v.Type() == reflect.TypeOf((*ast.Scope)(nil)) {
			return reflect.Zero(v.Type())
		}
		nv := reflect.New(v.Type().Elem())
		nv.Elem().Set(cloneValue(v.Elem(), suffix))
		if id, ok := nv.Interface().(*ast.Ident); ok && strings.HasPrefix(id.Name, "__v") {
			id.Name += suffix
		}
		return nv
	case reflect.Interface:
		if v.IsNil() {
			return v
		}
		nv := reflect.New(v.Type()).Elem()
		nv.Set(cloneValue(v.Elem(), suffix))
		return nv
	case reflect.Slice:
		if v.IsNil() {
			return v
		}
		nv := reflect.MakeSlice(v.Type(), v.Len(), v.Len())
		for i := 0; i < v.Len(); i++ {
			nv.Index(i).Set(cloneValue(v.Index(i), suffix))
		}
		return nv
	case reflect.Struct:
		nv := reflect.New(v.Type()).Elem()
		for i := 0; i < v.NumField(); i++ {
			if nv.Field(i).CanSet() {
				nv.Field(i).Set(cloneValue(v.Field(i), suffix))
			}
		}
		return nv
	default:
		return v
	}
}
