module verif/cmd

go 1.23
