// vrun is the runner of /verif: it builds a scratch copy of /repo with the harness packages
// and instrumentation, spawns worker processes, classifies results and crashes, shrinks and
// replays violations, applies the known-findings list and writes the evidence file.
//
// Exit codes: 0 property held on everything explored (known findings are printed, not alarms);
// 1 a new violation (a line "VIOLATION property=<id> replay=<path>" is printed);
// 2 build / instrumentation / reproducibility trouble (never a VIOLATION line).
package main

import (
	"bufio"
	"bytes"
	"crypto/sha256"
	"encoding/hex"
	"encoding/json"
	"errors"
	"fmt"
	"os"
	"os/exec"
	"path/filepath"
	"regexp"
	"runtime"
	"sort"
	"strconv"
	"strings"
	"sync"
	"time"
)

const verifDir = "/verif"

var repoDir = envOr("VERIF_REPO", "/repo")

func envOr(k, d string) string {
	if v := os.Getenv(k); v != "" {
		return v
	}
	return d
}

type Budget struct {
	Count     int `json:"count"`
	DeadlineS int `json:"deadline_s"`
}

type Part struct {
	Name             string         `json:"name"`
	Harness          string         `json:"harness"`
	Pkg              string         `json:"pkg"`
	Quick            Budget         `json:"quick"`
	Thorough         Budget         `json:"thorough"`
	Params           map[string]any `json:"params"`
	CrashIsViolation bool           `json:"crash_is_violation"`
	// crashes whose class key contains one of these strings are violations of this part's property
	// (for parts that otherwise leave engine panics to C09)
	CrashViolationMatch []string `json:"crash_violation_match"`
	Workers             int      `json:"workers"`
	Tags                string   `json:"tags"`
}

type PropCfg struct {
	Level       string   `json:"level"`
	Parts       []Part   `json:"parts"`
	Rule        string   `json:"rule"`
	Real        []string `json:"real"`
	Stub        []string `json:"stub"`
	Assumptions []string `json:"assumptions"`
}

type StmtSpec struct {
	File  string   `json:"file"`
	Funcs []string `json:"funcs"`
}

type Config struct {
	Properties map[string]PropCfg `json:"properties"`
	Vinst      struct {
		Select []string   `json:"select"`
		Mutex  []string   `json:"mutex"`
		Stmt   []StmtSpec `json:"stmt"`
		Cases  []StmtSpec `json:"cases"`
	} `json:"vinst"`
}

type Finding struct {
	Property    string `json:"property"`
	Key         string `json:"key"`
	Status      string `json:"status"` // open | fixed
	Commit      string `json:"commit,omitempty"`
	Description string `json:"description"`
	Witness     string `json:"witness,omitempty"`
}

type RunInfo struct {
	Nontrivial   bool            `json:"nontrivial"`
	Inconclusive bool            `json:"inconclusive,omitempty"`
	Sig          string          `json:"sig,omitempty"`
	States       []string        `json:"states,omitempty"`
	Sample       json.RawMessage `json:"sample,omitempty"`
	SimNs        int64           `json:"sim_ns,omitempty"`
	Extra        map[string]int  `json:"extra,omitempty"`
}

type Result struct {
	Seed          uint64         `json:"seed"`
	Outcome       string         `json:"outcome"`
	Key           string         `json:"key,omitempty"`
	Detail        string         `json:"detail,omitempty"`
	Steps         int            `json:"steps"`
	NChoices      int            `json:"nchoices"`
	LogHash       string         `json:"log_hash"`
	WallUs        int64          `json:"wall_us"`
	Faults        map[string]int `json:"faults,omitempty"`
	Probes        map[string]int `json:"probes,omitempty"`
	Info          RunInfo        `json:"info"`
	Choices       []int          `json:"choices,omitempty"`
	Trace         []string       `json:"trace,omitempty"`
	Known         map[string]int `json:"known,omitempty"`
	crashed       bool
	shutdownDeath bool
	stderr        string
}

type ReplayFile struct {
	Property string         `json:"property"`
	Harness  string         `json:"harness"`
	Part     string         `json:"part,omitempty"`
	Pkg      string         `json:"pkg,omitempty"`
	Seed     uint64         `json:"seed"`
	Params   map[string]any `json:"params"`
	Choices  []int          `json:"choices"`
	Key      string         `json:"key,omitempty"`
	Detail   string         `json:"detail,omitempty"`
	LogHash  string         `json:"log_hash,omitempty"`
	Note     string         `json:"note,omitempty"`
	Trace    []string       `json:"trace,omitempty"`
}

func fatal2(f string, a ...any) {
	fmt.Fprintf(os.Stderr, "vrun: "+f+"\n", a...)
	cleanup()
	os.Exit(2)
}

var scratch string
var keepScratch = os.Getenv("VERIF_KEEP") != ""

func cleanup() {
	if scratch != "" && !keepScratch {
		os.RemoveAll(scratch)
	}
}

func loadConfig() Config {
	var c Config
	b, err := os.ReadFile(filepath.Join(verifDir, "harness.json"))
	if err != nil {
		fatal2("%v", err)
	}
	if err := json.Unmarshal(b, &c); err != nil {
		fatal2("harness.json: %v", err)
	}
	return c
}

func loadFindings() []Finding {
	var f []Finding
	if os.Getenv("VERIF_IGNORE_KNOWN") != "" {
		return nil // development aid: produce replay files for classes that are listed as known
	}
	b, err := os.ReadFile(filepath.Join(verifDir, "known_findings.json"))
	if err != nil {
		return nil
	}
	if err := json.Unmarshal(b, &f); err != nil {
		fatal2("known_findings.json: %v", err)
	}
	return f
}

// ---------------------------------------------------------------- build

var goBin string
var goEnv []string

func run(dir string, env []string, name string, args ...string) (string, error) {
	cmd := exec.Command(name, args...)
	cmd.Dir = dir
	cmd.Env = env
	var buf bytes.Buffer
	cmd.Stdout = &buf
	cmd.Stderr = &buf
	err := cmd.Run()
	return buf.String(), err
}

func baseEnv() []string {
	var env []string
	for _, e := range os.Environ() {
		k := strings.SplitN(e, "=", 2)[0]
		switch k {
		case "GOFLAGS", "GOPROXY", "GOSUMDB", "GOTOOLCHAIN", "GONOSUMDB", "GONOSUMCHECK", "GOMAXPROCS":
			continue
		}
		if strings.HasPrefix(k, "VSIM_") {
			continue
		}
		env = append(env, e)
	}
	return env
}

// resolveGo finds the toolchain the repository itself uses (go.mod's version), so that no
// toolchain switch or network access is needed later.
func resolveGo(repo string) {
	env := append(baseEnv(), "GOFLAGS=-mod=mod", "GOPROXY=off")
	out, err := run(repo, env, "go", "env", "GOROOT")
	root := strings.TrimSpace(out)
	if err != nil || root == "" || !fileExists(filepath.Join(root, "bin", "go")) {
		// fall back: any cached toolchain matching go.mod, else go1.26.8
		mc, _ := run(repo, append(baseEnv(), "GOTOOLCHAIN=local"), "go", "env", "GOMODCACHE")
		cands, _ := filepath.Glob(filepath.Join(strings.TrimSpace(mc), "golang.org", "toolchain@v0.0.1-go1.25*"))
		if len(cands) > 0 {
			root = cands[0]
		} else if fileExists("/opt/veriftools/go1.26.8/bin/go") {
			root = "/opt/veriftools/go1.26.8"
		} else {
			fatal2("cannot resolve a Go toolchain for %s: %v %s", repo, err, out)
		}
	}
	goBin = filepath.Join(root, "bin", "go")
	goEnv = append(baseEnv(), "GOFLAGS=-mod=mod", "GOPROXY=off", "GOSUMDB=off", "GOTOOLCHAIN=local", "GONOSUMDB=*", "GONOSUMCHECK=1", "GOROOT="+root)
}

func fileExists(p string) bool { _, err := os.Stat(p); return err == nil }

func buildScratch(cfg Config) string {
	base := envOr("VERIF_SCRATCH_BASE", "/var/tmp")
	os.MkdirAll(base, 0o755)
	dir, err := os.MkdirTemp(base, "verif.")
	if err != nil {
		fatal2("%v", err)
	}
	scratch = dir
	srepo := filepath.Join(dir, "repo")
	if out, err := run("", os.Environ(), "rsync", "-a", "--exclude", ".git", repoDir+"/", srepo+"/"); err != nil {
		fatal2("rsync: %v\n%s", err, out)
	}
	if out, err := run("", os.Environ(), "cp", "-r", filepath.Join(verifDir, "intree")+"/.", srepo+"/"); err != nil {
		fatal2("copy intree: %v\n%s", err, out)
	}
	resolveGo(srepo)
	// instrumentation
	vinst := filepath.Join(verifDir, "bin", "vinst")
	var args []string
	for _, f := range cfg.Vinst.Select {
		args = append(args, "select:"+f)
	}
	for _, f := range cfg.Vinst.Mutex {
		args = append(args, "mutex:"+f)
	}
	for _, s := range cfg.Vinst.Stmt {
		args = append(args, "stmt:"+s.File+":"+strings.Join(s.Funcs, ","))
	}
	for _, s := range cfg.Vinst.Cases {
		args = append(args, "cases:"+s.File+":"+strings.Join(s.Funcs, ","))
	}
	if len(args) > 0 {
		out, err := run(srepo, os.Environ(), vinst, args...)
		if err != nil {
			fatal2("vinst failed: %v\n%s", err, out)
		}
		os.WriteFile(filepath.Join(dir, "vinst.log"), []byte(out), 0o644)
	}
	// porcupine for the linearizability oracles (module cache, offline)
	if out, err := run(srepo, goEnv, goBin, "mod", "edit", "-require=github.com/anishathalye/porcupine@v1.3.0"); err != nil {
		fatal2("go mod edit: %v\n%s", err, out)
	}
	return dir
}

func buildPkg(dir, pkg, tags string) string {
	srepo := filepath.Join(dir, "repo")
	bin := filepath.Join(dir, "bin", strings.ReplaceAll(pkg, "/", "_")+strings.ReplaceAll(tags, ",", "_")+".test")
	if fileExists(bin) {
		return bin
	}
	os.MkdirAll(filepath.Dir(bin), 0o755)
	t := "verif"
	if tags != "" {
		t += "," + tags
	}
	out, err := run(srepo, goEnv, goBin, "test", "-c", "-tags", t, "-o", bin, "./"+pkg)
	if err != nil {
		fatal2("build of %s failed (exit 2, not a violation): %v\n%s", pkg, err, out)
	}
	return bin
}

// ---------------------------------------------------------------- workers

var reNum = regexp.MustCompile(`0x[0-9a-fA-F]+|\b[0-9a-fA-F]{8,}\b|\d+`)

func skeleton(s string) string {
	s = reNum.ReplaceAllString(s, "N")
	if len(s) > 160 {
		s = s[:160]
	}
	return strings.TrimSpace(s)
}

// crashKey derives a stable class key from a Go crash report.
func crashKey(stderr string) (key, detail string) {
	lines := strings.Split(stderr, "\n")
	msg := ""
	idx := -1
	for i, l := range lines {
		if strings.HasPrefix(l, "panic: ") || strings.HasPrefix(l, "fatal error: ") {
			msg = l
			idx = i
			break
		}
	}
	if idx < 0 {
		tail := lines
		if len(tail) > 15 {
			tail = tail[len(tail)-15:]
		}
		return "crash/unknown", strings.Join(tail, "\n")
	}
	// a panic value may span lines ("panic: " + multi-line error); add [recovered] etc.
	fn := ""
	for _, l := range lines[idx+1:] {
		if strings.HasPrefix(l, "github.com/gordian-engine/gordian/") && !strings.Contains(l, "/vsim") && !strings.Contains(l, "vsimcore") && !strings.Contains(l, ".zzv") {
			fn = l
			if p := strings.LastIndex(fn, "("); p > 0 {
				fn = fn[:p]
			}
			fn = strings.TrimPrefix(fn, "github.com/gordian-engine/gordian/")
			break
		}
	}
	end := idx + 40
	if end > len(lines) {
		end = len(lines)
	}
	kind := "panic"
	if strings.HasPrefix(msg, "fatal error") {
		kind = "fatal"
	}
	m := strings.TrimPrefix(strings.TrimPrefix(msg, "panic: "), "fatal error: ")
	return kind + "/" + fn + "/" + skeleton(m), strings.Join(lines[idx:end], "\n")
}

type job struct {
	bin     string
	harness string
	params  map[string]any
	env     []string
}

// runWorker runs one worker process and returns its results. If the process dies, the run in
// progress is returned as a crashed Result.
func runWorker(j job, extraEnv []string, timeout time.Duration) (results []Result, procErr string) {
	pj, _ := json.Marshal(j.params)
	cmd := exec.Command(j.bin, "-test.run", "^TestVsimWorker$", "-test.timeout", "0", "-test.v=false")
	cmd.Env = append(append(baseEnv(), "VSIM_HARNESS="+j.harness, "VSIM_PARAMS="+string(pj)), extraEnv...)
	cmd.Env = append(cmd.Env, j.env...)
	var stderr bytes.Buffer
	cmd.Stderr = &stderr
	stdout, _ := cmd.StdoutPipe()
	if err := cmd.Start(); err != nil {
		return nil, err.Error()
	}
	timer := time.AfterFunc(timeout, func() { cmd.Process.Kill() })
	defer timer.Stop()
	sc := bufio.NewScanner(stdout)
	sc.Buffer(make([]byte, 1<<20), 1<<28)
	var cur uint64
	inRun := false
	done := false
	hardTimeout := false
	restarted := false // the run in progress has restarted a node on its stores
	var provisional *Result
	var other []string
	for sc.Scan() {
		line := sc.Text()
		if !strings.HasPrefix(line, "VSIM ") {
			if len(other) < 50 {
				other = append(other, line)
			}
			continue
		}
		rest := line[5:]
		switch rest[0] {
		case 'B':
			cur, _ = strconv.ParseUint(strings.TrimSpace(rest[2:]), 10, 64)
			inRun = true
			restarted = false
		case 'N':
			if strings.TrimSpace(rest[2:]) == "restarted" {
				restarted = true
			}
		case 'P':
			// provisional verdict of the run in progress (emitted before the harness tears the system down)
			var r Result
			if err := json.Unmarshal([]byte(rest[2:]), &r); err == nil {
				provisional = &r
			}
		case 'R':
			provisional = nil
			var r Result
			if err := json.Unmarshal([]byte(rest[2:]), &r); err != nil {
				return results, "bad worker line: " + err.Error()
			}
			results = append(results, r)
			inRun = false
		case 'X':
			// the worker killed itself: a run exceeded its hard wall-clock limit
			results = append(results, Result{Seed: cur, Outcome: "inconclusive", Key: "hard-timeout", Detail: rest})
			inRun = false
			hardTimeout = true
		case 'D':
			done = true
		case 'E':
			return results, "worker error: " + rest
		}
	}
	err := cmd.Wait()
	if done && err == nil {
		return results, ""
	}
	if hardTimeout {
		// resume after the timed-out run, like after a crash
		results[len(results)-1].crashed = true
		results[len(results)-1].Outcome = "inconclusive"
		return results, ""
	}
	se := stderr.String() + strings.Join(other, "\n")
	if inRun && provisional != nil && provisional.Seed == cur {
		// the process died while the harness was shutting the system down: the run's verdict stands
		r := *provisional
		if r.Probes == nil {
			r.Probes = map[string]int{}
		}
		r.Probes["process_died_during_shutdown"]++
		r.crashed = true // tells the caller to resume after this index
		r.shutdownDeath = true
		results = append(results, r)
		return results, ""
	}
	if inRun {
		key, detail := crashKey(se)
		if !timer.Stop() && !strings.Contains(se, "panic:") && !strings.Contains(se, "fatal error:") {
			key, detail = "timeout", "worker killed after "+timeout.String()
		}
		if b, _ := j.params["panic_after_restart_is_violation"].(bool); b && restarted && strings.HasPrefix(key, "panic/") {
			// the engine was restarted on its stores and then panicked: it has not resumed (C10)
			key, detail = "panicked-after-restart/"+strings.TrimPrefix(key, "panic/"), "after a restart on the same stores the engine panicked:\n"+detail
		}
		results = append(results, Result{Seed: cur, Outcome: "crash", Key: key, Detail: detail, crashed: true, stderr: se})
		return results, ""
	}
	if err != nil {
		tail := se
		if len(tail) > 3000 {
			tail = tail[len(tail)-3000:]
		}
		return results, fmt.Sprintf("worker exited abnormally outside a run: %v\n%s", err, tail)
	}
	return results, ""
}

// runReplay runs one replay file in a fresh process.
func runReplay(j job, rf ReplayFile, trace bool) (Result, string) {
	f, err := os.CreateTemp(scratch, "replay*.json")
	if err != nil {
		return Result{}, err.Error()
	}
	b, _ := json.Marshal(rf)
	f.Write(b)
	f.Close()
	defer os.Remove(f.Name())
	env := []string{"VSIM_MODE=replay", "VSIM_REPLAY=" + f.Name()}
	if trace {
		env = append(env, "VSIM_TRACE=1")
	}
	rs, perr := runWorker(j, env, 10*time.Minute)
	if perr != "" {
		return Result{}, perr
	}
	if len(rs) == 0 {
		return Result{}, "no result from replay"
	}
	return rs[len(rs)-1], ""
}

// captureChoices re-runs a crashing seed with a streamed choice log.
func captureChoices(j job, base uint64, idx int64) []int {
	p := filepath.Join(scratch, fmt.Sprintf("choices.%d.%d", base, idx))
	env := []string{"VSIM_MODE=seeds", fmt.Sprintf("VSIM_SEED_BASE=%d", base), fmt.Sprintf("VSIM_START=%d", idx), fmt.Sprintf("VSIM_COUNT=%d", idx+1), "VSIM_STRIDE=1", "VSIM_CHOICELOG=" + p}
	runWorker(j, env, 10*time.Minute)
	b, err := os.ReadFile(p)
	if err != nil {
		return nil
	}
	os.Remove(p)
	var out []int
	for _, l := range strings.Fields(string(b)) {
		n, _ := strconv.Atoi(l)
		out = append(out, n)
	}
	return out
}

// ---------------------------------------------------------------- shrinking

func sameClass(r Result, key string) bool {
	return (r.Outcome == "violation" || r.Outcome == "crash") && r.Key == key
}

func shrink(j job, rf ReplayFile, key string, budget time.Duration, maxAttempts int) ReplayFile {
	deadline := time.Now().Add(budget)
	attempts := 0
	par := runtime.NumCPU()
	try := func(cands [][]int) int { // returns index of first success or -1
		if len(cands) == 0 {
			return -1
		}
		res := make([]bool, len(cands))
		var wg sync.WaitGroup
		sem := make(chan struct{}, par)
		for i := range cands {
			if time.Now().After(deadline) || attempts >= maxAttempts {
				break
			}
			attempts++
			wg.Add(1)
			sem <- struct{}{}
			go func(i int) {
				defer wg.Done()
				defer func() { <-sem }()
				c := rf
				c.Choices = cands[i]
				r, perr := runReplay(j, c, false)
				res[i] = perr == "" && sameClass(r, key)
			}(i)
		}
		wg.Wait()
		for i, ok := range res {
			if ok {
				return i
			}
		}
		return -1
	}
	cur := append([]int(nil), rf.Choices...)
	// 1. shortest prefix (later choices default to 0)
	for len(cur) > 0 && time.Now().Before(deadline) && attempts < maxAttempts {
		var cands [][]int
		for _, frac := range []int{0, 1, 2, 3, 4, 5, 6, 7} {
			n := len(cur) * frac / 8
			cands = append(cands, append([]int(nil), cur[:n]...))
		}
		i := try(cands)
		if i < 0 {
			break
		}
		cur = cands[i]
		if len(cur) < 8 {
			break
		}
	}
	// 2. remove chunks
	for chunk := len(cur) / 2; chunk >= 1 && time.Now().Before(deadline) && attempts < maxAttempts; {
		progress := false
		var cands [][]int
		for off := 0; off+chunk <= len(cur); off += chunk {
			c := append(append([]int(nil), cur[:off]...), cur[off+chunk:]...)
			cands = append(cands, c)
			if len(cands) == par {
				if i := try(cands); i >= 0 {
					cur = cands[i]
					progress = true
					cands = nil
					break
				}
				cands = nil
			}
		}
		if !progress && len(cands) > 0 {
			if i := try(cands); i >= 0 {
				cur = cands[i]
				progress = true
			}
		}
		if !progress {
			chunk /= 2
		} else if chunk > len(cur) {
			chunk = len(cur) / 2
		}
	}
	// 3. zero single choices
	for pass := 0; pass < 2 && time.Now().Before(deadline) && attempts < maxAttempts; pass++ {
		var idxs []int
		for i, v := range cur {
			if v != 0 {
				idxs = append(idxs, i)
			}
		}
		changed := false
		for k := 0; k < len(idxs) && time.Now().Before(deadline) && attempts < maxAttempts; k += par {
			var cands [][]int
			end := k + par
			if end > len(idxs) {
				end = len(idxs)
			}
			for _, ix := range idxs[k:end] {
				c := append([]int(nil), cur...)
				c[ix] = 0
				cands = append(cands, c)
			}
			// accept every individually successful zeroing whose combination still reproduces
			if i := try(cands); i >= 0 {
				cur = cands[i]
				changed = true
			}
		}
		if !changed {
			break
		}
	}
	for len(cur) > 0 && cur[len(cur)-1] == 0 {
		cur = cur[:len(cur)-1]
	}
	rf.Note = fmt.Sprintf("minimised from %d to %d choices in %d replay attempts", len(rf.Choices), len(cur), attempts)
	rf.Choices = cur
	return rf
}

// ---------------------------------------------------------------- check

type partStats struct {
	Name          string         `json:"part"`
	Harness       string         `json:"harness"`
	Runs          int            `json:"runs"`
	Nontrivial    int            `json:"nontrivial_runs"`
	DistinctNT    int            `json:"distinct_nontrivial_traces"`
	Inconclusive  int            `json:"inconclusive"`
	Crashed       int            `json:"aborted_by_crash"`
	CrashClasses  map[string]int `json:"crash_classes,omitempty"`
	Violations    int            `json:"violations"`
	Steps         int64          `json:"scheduler_steps"`
	SimSeconds    float64        `json:"simulated_seconds"`
	WallS         float64        `json:"wall_s"`
	RunsPerHour   int64          `json:"runs_per_hour"`
	Faults        map[string]int `json:"faults_fired"`
	Probes        map[string]int `json:"probes_hit"`
	DistinctState int            `json:"distinct_abstract_states"`
	Extra         map[string]int `json:"extra,omitempty"`
	Params        map[string]any `json:"params,omitempty"`
}

func hashKey(k string) string {
	h := sha256.Sum256([]byte(k))
	return hex.EncodeToString(h[:6])
}

func tierBudget(p Part, tier string) Budget {
	b := p.Quick
	if tier == "thorough" {
		b = p.Thorough
		if b.Count == 0 {
			b = p.Quick
		}
	}
	if b.Count == 0 {
		b.Count = 100
	}
	if b.DeadlineS == 0 {
		b.DeadlineS = 60
	}
	if s := os.Getenv("VERIF_BUDGET_SCALE"); s != "" {
		if f, err := strconv.ParseFloat(s, 64); err == nil && f > 0 {
			b.Count = int(float64(b.Count) * f)
			b.DeadlineS = int(float64(b.DeadlineS)*f) + 1
		}
	}
	return b
}

func check(prop, tier string, onlyPart string) int {
	t0 := time.Now()
	cfg := loadConfig()
	pc, ok := cfg.Properties[prop]
	if !ok {
		fatal2("property %s has no check (see MANIFEST not_applicable)", prop)
	}
	findings := loadFindings()
	seedBase := uint64(1)
	if v := os.Getenv("VERIF_SEED"); v != "" {
		if n, err := strconv.ParseUint(v, 10, 64); err == nil {
			seedBase = n
		} else if n, err := strconv.ParseInt(v, 10, 64); err == nil {
			seedBase = uint64(n)
		}
	}
	dir := buildScratch(cfg)
	defer cleanup()

	nw := runtime.NumCPU()
	if v := os.Getenv("VERIF_WORKERS"); v != "" {
		if n, err := strconv.Atoi(v); err == nil && n > 0 {
			nw = n
		}
	}

	var stats []partStats
	var samples []json.RawMessage
	totalRuns, totalNT, totalDistinct := 0, 0, 0
	newViolations := 0
	knownHit := map[string]int{}
	var outLines []string
	exit := 0

	for pi, part := range pc.Parts {
		if onlyPart != "" && part.Name != onlyPart {
			continue
		}
		bin := buildPkg(dir, part.Pkg, part.Tags)
		bud := tierBudget(part, tier)
		params := map[string]any{"tier": tier, "property": prop}
		for k, v := range part.Params {
			params[k] = v
		}
		var knownKeys []string
		for _, f := range findings {
			if f.Property == prop && f.Status == "open" {
				knownKeys = append(knownKeys, f.Key)
			}
		}
		params["known_keys"] = knownKeys
		j := job{bin: bin, harness: part.Harness, params: params}
		workers := nw
		if part.Workers > 0 && part.Workers < workers {
			workers = part.Workers
		}
		if workers > bud.Count {
			workers = bud.Count
		}
		partSeed := seedBase*64 + uint64(pi)
		pt0 := time.Now()
		var mu sync.Mutex
		var all []Result
		var procErrs []string
		var wg sync.WaitGroup
		for w := 0; w < workers; w++ {
			wg.Add(1)
			go func(w int) {
				defer wg.Done()
				start := int64(w)
				deadline := pt0.Add(time.Duration(bud.DeadlineS) * time.Second)
				for start < int64(bud.Count) {
					left := time.Until(deadline)
					if left <= 0 {
						return
					}
					env := []string{"VSIM_MODE=seeds", fmt.Sprintf("VSIM_SEED_BASE=%d", partSeed),
						fmt.Sprintf("VSIM_START=%d", start), fmt.Sprintf("VSIM_STRIDE=%d", workers),
						fmt.Sprintf("VSIM_COUNT=%d", bud.Count), fmt.Sprintf("VSIM_DEADLINE_S=%d", int(left.Seconds())+1)}
					rs, perr := runWorker(j, env, left+5*time.Minute)
					mu.Lock()
					all = append(all, rs...)
					if perr != "" {
						procErrs = append(procErrs, perr)
					}
					mu.Unlock()
					if perr != "" || len(rs) == 0 {
						return
					}
					last := rs[len(rs)-1]
					if !last.crashed {
						return // worker finished its slice (or hit the deadline)
					}
					// resume after the crashed index
					idx := int64(last.Seed - partSeed*1000003)
					start = idx + int64(workers)
				}
			}(w)
		}
		wg.Wait()
		if len(procErrs) > 0 {
			fatal2("worker trouble in %s/%s: %s", prop, part.Name, procErrs[0])
		}
		if len(all) == 0 {
			fatal2("no runs completed for %s/%s", prop, part.Name)
		}
		sort.Slice(all, func(a, b int) bool { return all[a].Seed < all[b].Seed })

		ps := partStats{Name: part.Name, Harness: part.Harness, Faults: map[string]int{}, Probes: map[string]int{}, CrashClasses: map[string]int{}, Extra: map[string]int{}, Params: part.Params}
		distinct := map[string]bool{}
		states := map[string]bool{}
		type vio struct {
			r Result
		}
		byKey := map[string][]Result{}
		for _, r := range all {
			ps.Runs++
			ps.Steps += int64(r.Steps)
			ps.SimSeconds += float64(r.Info.SimNs) / 1e9
			for k, v := range r.Faults {
				ps.Faults[k] += v
			}
			for k, v := range r.Probes {
				ps.Probes[k] += v
			}
			for k, v := range r.Info.Extra {
				ps.Extra[k] += v
			}
			for _, s := range r.Info.States {
				states[s] = true
			}
			for k, v := range r.Known {
				knownHit[k] += v
			}
			if r.Info.Sig != "" {
				states[r.Info.Sig] = true
			}
			switch r.Outcome {
			case "crash":
				ps.Crashed++
				ps.CrashClasses[r.Key]++
				if strings.HasPrefix(r.Key, "panicked-after-restart/") {
					ps.Violations++
				}
				matched := false
				for _, m := range part.CrashViolationMatch {
					if strings.Contains(r.Key, m) {
						matched = true
					}
				}
				if matched {
					ps.Violations++
				}
				if part.CrashIsViolation || matched || strings.HasPrefix(r.Key, "panicked-after-restart/") {
					byKey[r.Key] = append(byKey[r.Key], r)
				}
			case "violation":
				ps.Violations++
				byKey[r.Key] = append(byKey[r.Key], r)
			case "inconclusive":
				ps.Inconclusive++
			}
			if r.Info.Nontrivial {
				ps.Nontrivial++
				distinct[r.LogHash] = true
			}
			if len(r.Info.Sample) > 0 && string(r.Info.Sample) != "null" && len(samples) < 4 {
				samples = append(samples, r.Info.Sample)
			}
		}
		ps.DistinctNT = len(distinct)
		ps.DistinctState = len(states)
		ps.WallS = time.Since(pt0).Seconds()
		if ps.WallS > 0 {
			ps.RunsPerHour = int64(float64(ps.Runs) / ps.WallS * 3600)
		}
		totalRuns += ps.Runs
		totalNT += ps.Nontrivial
		totalDistinct += ps.DistinctNT

		// classify violations
		keys := make([]string, 0, len(byKey))
		for k := range byKey {
			keys = append(keys, k)
		}
		sort.Strings(keys)
		for _, k := range keys {
			rs := byKey[k]
			var kf *Finding
			for i := range findings {
				if findings[i].Property == prop && findings[i].Key == k && findings[i].Status == "open" {
					kf = &findings[i]
				}
			}
			if kf != nil {
				knownHit[k] += len(rs)
				continue
			}
			// a new violation class: get choices, shrink, confirm, write replay
			r := rs[0]
			if r.crashed && !r.shutdownDeath {
				r.Choices = captureChoices(j, partSeed, int64(r.Seed-partSeed*1000003))
			}
			rf := ReplayFile{Property: prop, Harness: part.Harness, Part: part.Name, Pkg: part.Pkg, Seed: r.Seed, Params: params, Choices: r.Choices, Key: k, Detail: r.Detail}
			// confirm the unshrunk replay first
			// Parts that run an unseedable dependency (go-libp2p-pubsub's goroutines and pools in the
			// libp2p part of C20) declare replay_attempts > 1: a violation counts as reproducible there
			// when a replay of the same choices shows the same class within that many attempts.
			attempts := 1
			if v, ok := params["replay_attempts"].(float64); ok && v > 1 {
				attempts = int(v)
			}
			// Everywhere else the first replay must show the same class. If it does not, the code under test
			// may itself be nondeterministic under a fixed schedule (a changed tree can be, e.g. a result
			// that depends on map iteration order): two more attempts decide between that and tool trouble.
			confirmAttempts := attempts
			if confirmAttempts < 4 {
				confirmAttempts = 4
			}
			var rr Result
			var perr string
			reproduced := false
			flaky := false
			for a := 0; a < confirmAttempts && !reproduced; a++ {
				rr, perr = runReplay(j, rf, false)
				reproduced = perr == "" && sameClass(rr, k)
				if !reproduced {
					flaky = true
				}
			}
			// Other runs of this batch that showed the same class are tried as well before giving up: when the
			// code under test depends on map iteration order, one run's log may need a rare order to show it again.
			for ci := 1; ci < len(rs) && ci < 6 && !reproduced; ci++ {
				c := rs[ci]
				if c.crashed && !c.shutdownDeath {
					c.Choices = captureChoices(j, partSeed, int64(c.Seed-partSeed*1000003))
				}
				crf := rf
				crf.Seed, crf.Choices, crf.Detail = c.Seed, c.Choices, c.Detail
				for a := 0; a < confirmAttempts && !reproduced; a++ {
					rr, perr = runReplay(j, crf, false)
					reproduced = perr == "" && sameClass(rr, k)
				}
				if reproduced {
					r, rf = c, crf
				}
			}
			if reproduced && flaky && attempts == 1 {
				attempts = 8
				outLines = append(outLines, fmt.Sprintf("  note: %q needed more than one replay of its choice log to show again: the code under test is nondeterministic under a fixed schedule", k))
			}
			if !reproduced {
				fatal2("violation %q of %s (seed %d) did not reproduce from its own choice log (%s %s %s): tool trouble, not reported as a violation", k, prop, r.Seed, perr, rr.Outcome, rr.Key)
			}
			sb, sa := 90*time.Second, 300
			if tier == "thorough" {
				sb, sa = 240*time.Second, 1200
			}
			unshrunk := rf
			if attempts == 1 {
				rf = shrink(j, rf, k, sb, sa)
			}
			var fr Result
			reproduced = false
			for a := 0; a < attempts && !reproduced; a++ {
				fr, perr = runReplay(j, rf, true)
				reproduced = perr == "" && sameClass(fr, k)
			}
			if !reproduced && attempts == 1 {
				// shrinking relies on replays being deterministic; when the code under test is not, the
				// minimised file may not show the violation again: fall back to the confirmed, unshrunk log
				rf, attempts = unshrunk, 8
				outLines = append(outLines, fmt.Sprintf("  note: the minimised replay of %q did not show the violation again; the unshrunk choice log is kept (the code under test is nondeterministic under a fixed schedule)", k))
				for a := 0; a < attempts && !reproduced; a++ {
					fr, perr = runReplay(j, rf, true)
					reproduced = perr == "" && sameClass(fr, k)
				}
			}
			if !reproduced {
				fatal2("minimised replay of %q did not reproduce (%s): tool trouble", k, perr)
			}
			if attempts == 1 {
				fr2, _ := runReplay(j, rf, false)
				if fr2.LogHash != fr.LogHash && !fr.crashed {
					if !sameClass(fr2, k) {
						fatal2("minimised replay of %q is not deterministic (event log hashes %s vs %s, second replay: %s %s): tool trouble", k, fr.LogHash, fr2.LogHash, fr2.Outcome, fr2.Key)
					}
					// The same violation twice, but not the same event log: the code under test itself behaves
					// nondeterministically under one schedule (for instance a result that depends on map
					// iteration order). That is reported with the violation, not hidden as tool trouble; on the
					// unchanged tree ./check determinism shows that replays are bit-identical.
					outLines = append(outLines, fmt.Sprintf("  note: two replays of %q reproduce the violation with different event logs (%s vs %s): the code under test is nondeterministic under a fixed schedule", k, fr.LogHash, fr2.LogHash))
				}
			}
			rf.LogHash = fr.LogHash
			rf.Detail = fr.Detail
			rf.Trace = fr.Trace
			if len(rf.Trace) > 400 {
				rf.Trace = rf.Trace[len(rf.Trace)-400:]
			}
			rdir := envOr("VERIF_REPLAY_DIR", filepath.Join(verifDir, "replays"))
			os.MkdirAll(rdir, 0o755)
			path := filepath.Join(rdir, fmt.Sprintf("%s-%s.json", prop, hashKey(k)))
			b, _ := json.MarshalIndent(rf, "", " ")
			os.WriteFile(path, b, 0o644)
			outLines = append(outLines, fmt.Sprintf("  class: %s\n  detail: %s\n  occurrences in this batch: %d, first seed %d, replay has %d choices", k, firstLines(fr.Detail, 6), len(rs), r.Seed, len(rf.Choices)))
			outLines = append(outLines, fmt.Sprintf("VIOLATION property=%s replay=%s", prop, path))
			newViolations++
			exit = 1
		}
		stats = append(stats, ps)
	}

	// known findings: printed for every open entry of this property (hit or not in this batch)
	var kfHit []map[string]any
	for _, f := range findings {
		if f.Property != prop || f.Status != "open" {
			continue
		}
		fmt.Printf("KNOWN-FINDING: property=%s %s [class %s; seen %d times in this run]\n", prop, f.Description, f.Key, knownHit[f.Key])
		kfHit = append(kfHit, map[string]any{"key": f.Key, "description": f.Description, "occurrences": knownHit[f.Key]})
	}
	for _, l := range outLines {
		fmt.Println(l)
	}

	// evidence
	wall := time.Since(t0).Seconds()
	faults := map[string]int{}
	for _, s := range stats {
		for k, v := range s.Faults {
			faults[k] += v
		}
	}
	if samples == nil {
		samples = []json.RawMessage{json.RawMessage(`"no sample emitted"`)}
	}
	ev := map[string]any{
		"property_id": prop,
		"tier":        tier,
		"seed":        seedBase,
		"level":       pc.Level,
		"coverage": map[string]any{
			"evaluations":         totalRuns,
			"distinct_nontrivial": totalDistinct,
			"nontrivial_runs":     totalNT,
			"rule":                pc.Rule,
			"samples":             samples,
			"parts":               stats,
			"faults_fired":        faults,
			"real_components":     pc.Real,
			"stub_components":     pc.Stub,
			"known_findings":      kfHit,
			"exhaustive":          false,
		},
		"assumptions": pc.Assumptions,
		"wall_s":      wall,
		"violations":  newViolations,
	}
	evDir := filepath.Join(verifDir, "evidence")
	if repoDir != "/repo" || onlyPart != "" {
		// a run against some other tree (a seeded change in a scratch copy), or of one part only,
		// is not the evidence of this property's check on /repo
		evDir = envOr("VERIF_EVIDENCE_DIR", "/tmp/verif-evidence-partial")
	}
	os.MkdirAll(evDir, 0o755)
	b, _ := json.MarshalIndent(ev, "", " ")
	if err := os.WriteFile(filepath.Join(evDir, prop+".json"), b, 0o644); err != nil {
		fatal2("%v", err)
	}
	for _, s := range stats {
		fmt.Printf("%s/%s: runs=%d nontrivial=%d distinct=%d crashed=%d inconclusive=%d violations=%d steps=%d sim=%.1fs wall=%.1fs runs/h=%d\n",
			prop, s.Name, s.Runs, s.Nontrivial, s.DistinctNT, s.Crashed, s.Inconclusive, s.Violations, s.Steps, s.SimSeconds, s.WallS, s.RunsPerHour)
		if len(s.CrashClasses) > 0 {
			fmt.Printf("  crash classes: %v\n", s.CrashClasses)
		}
	}
	if exit == 0 && totalDistinct < 2 {
		fatal2("%s explored fewer than 2 distinct non-trivial runs (%d): the check did not do its job", prop, totalDistinct)
	}
	return exit
}

func firstLines(s string, n int) string {
	l := strings.Split(s, "\n")
	if len(l) > n {
		l = l[:n]
	}
	return strings.Join(l, " | ")
}

// ---------------------------------------------------------------- replay / determinism

func replayCmd(path string) int {
	b, err := os.ReadFile(path)
	if err != nil {
		fatal2("%v", err)
	}
	var rf ReplayFile
	if err := json.Unmarshal(b, &rf); err != nil {
		fatal2("%v", err)
	}
	cfg := loadConfig()
	dir := buildScratch(cfg)
	defer cleanup()
	pkg := rf.Pkg
	tags := ""
	if pc, ok := cfg.Properties[rf.Property]; ok {
		for _, p := range pc.Parts {
			if p.Harness == rf.Harness && (rf.Part == "" || rf.Part == p.Name) {
				pkg = p.Pkg
				tags = p.Tags
			}
		}
	}
	if pkg == "" {
		fatal2("replay file names no package")
	}
	bin := buildPkg(dir, pkg, tags)
	j := job{bin: bin, harness: rf.Harness, params: rf.Params}
	r, perr := runReplay(j, rf, true)
	if perr != "" {
		fatal2("%s", perr)
	}
	for _, l := range r.Trace {
		fmt.Println("   ", l)
	}
	if r.crashed {
		fmt.Println(r.Detail)
	}
	fmt.Printf("replay outcome=%s key=%q log_hash=%s steps=%d\n", r.Outcome, r.Key, r.LogHash, r.Steps)
	if r.Outcome == "violation" || r.Outcome == "crash" {
		fmt.Printf("detail: %s\n", r.Detail)
		if rf.Key != "" && r.Key != rf.Key {
			fmt.Printf("NOTE: class differs from the recorded one (%q)\n", rf.Key)
		}
		fmt.Printf("VIOLATION property=%s replay=%s\n", rf.Property, path)
		return 1
	}
	return 0
}

// determinism: every seed is run several times in separate processes at several GOMAXPROCS
// values; event-log hashes and outcomes must agree.
func determinism(prop string, seeds int, onlyPart string) int {
	cfg := loadConfig()
	pc, ok := cfg.Properties[prop]
	if !ok {
		fatal2("unknown property %s", prop)
	}
	dir := buildScratch(cfg)
	defer cleanup()
	bad := 0
	for pi, part := range pc.Parts {
		if onlyPart != "" && part.Name != onlyPart {
			continue
		}
		bin := buildPkg(dir, part.Pkg, part.Tags)
		params := map[string]any{"tier": "quick", "property": prop}
		for k, v := range part.Params {
			params[k] = v
		}
		j := job{bin: bin, harness: part.Harness, params: params}
		type rk struct {
			hash, outcome, key string
			steps              int
		}
		ref := map[uint64]rk{}
		cutShort := 0
		diverged := map[uint64]bool{}
		var mu sync.Mutex
		var wg sync.WaitGroup
		procs := []string{"1", "4", "16", "2", "8", "16"}
		for rep, gm := range procs {
			wg.Add(1)
			go func(rep int, gm string) {
				defer wg.Done()
				start := int64(0)
				for start < int64(seeds) {
					env := []string{"VSIM_MODE=seeds", fmt.Sprintf("VSIM_SEED_BASE=%d", 7700+pi), fmt.Sprintf("VSIM_START=%d", start), "VSIM_STRIDE=1", fmt.Sprintf("VSIM_COUNT=%d", seeds), "GOMAXPROCS=" + gm}
					rs, perr := runWorker(j, env, 30*time.Minute)
					if perr != "" {
						fmt.Println("worker trouble:", perr)
						mu.Lock()
						bad++
						mu.Unlock()
						return
					}
					mu.Lock()
					for _, r := range rs {
						if r.Outcome == "inconclusive" {
							// cut short by its wall-clock budget (a loaded machine): not a completed run,
							// nothing to compare; counted so that the report shows it
							cutShort++
							continue
						}
						k := rk{r.LogHash, r.Outcome, r.Key, r.Steps}
						if o, ok := ref[r.Seed]; ok {
							if o != k && !diverged[r.Seed] {
								diverged[r.Seed] = true
								fmt.Printf("DIVERGENCE %s/%s seed=%d: %+v vs %+v (GOMAXPROCS=%s)\n", prop, part.Name, r.Seed, o, k, gm)
							}
						} else {
							ref[r.Seed] = k
						}
					}
					mu.Unlock()
					if len(rs) == 0 {
						return
					}
					last := rs[len(rs)-1]
					if !last.crashed {
						return
					}
					start = int64(last.Seed-uint64(7700+pi)*1000003) + 1
				}
			}(rep, gm)
		}
		wg.Wait()
		hashes := map[string]bool{}
		for _, k := range ref {
			hashes[k.hash] = true
		}
		fmt.Printf("determinism %s/%s: %d seeds x %d processes (GOMAXPROCS %v), %d distinct traces, %d diverged, %d runs cut short by the wall clock (not compared)\n", prop, part.Name, len(ref), len(procs), procs, len(hashes), len(diverged), cutShort)
		bad += len(diverged)
	}
	if bad > 0 {
		return 2
	}
	return 0
}

func main() {
	if len(os.Args) < 2 {
		fmt.Fprintln(os.Stderr, "usage: vrun check <prop> <quick|thorough> [part] | replay <file> | determinism <prop> [seeds] [part] | build")
		os.Exit(2)
	}
	switch os.Args[1] {
	case "check":
		if len(os.Args) < 4 {
			fatal2("usage: vrun check <prop> <tier>")
		}
		part := ""
		if len(os.Args) > 4 {
			part = os.Args[4]
		}
		code := check(os.Args[2], os.Args[3], part)
		cleanup()
		os.Exit(code)
	case "replay":
		code := replayCmd(os.Args[2])
		cleanup()
		os.Exit(code)
	case "determinism":
		n := 40
		if len(os.Args) > 3 {
			n, _ = strconv.Atoi(os.Args[3])
		}
		part := ""
		if len(os.Args) > 4 {
			part = os.Args[4]
		}
		code := determinism(os.Args[2], n, part)
		cleanup()
		os.Exit(code)
	case "build":
		keepScratch = true
		cfg := loadConfig()
		dir := buildScratch(cfg)
		fmt.Println(dir)
		for _, a := range os.Args[2:] {
			fmt.Println(buildPkg(dir, a, ""))
		}
	default:
		fatal2("unknown command %s", os.Args[1])
	}
	_ = errors.New
}
