#!/bin/bash
# Builds the runner and the instrumenter from sources under /verif (standard library only, offline).
set -euo pipefail
cd "$(dirname "$0")"
export GOFLAGS=-mod=mod GOPROXY=off GOTOOLCHAIN=local
mkdir -p bin evidence replays
(cd cmd && go build -o ../bin/vrun ./vrun && go build -o ../bin/vinst ./vinst)
echo "setup ok: $(ls bin | tr '\n' ' ')"
