//go:build verif

package tmlibp2p

import (
	"testing"

	"github.com/gordian-engine/gordian/internal/vsimcore"
)

func TestVsimWorker(t *testing.T) {
	vsimcore.WorkerMain(t, Harnesses)
}
