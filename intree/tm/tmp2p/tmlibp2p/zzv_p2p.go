//go:build verif

package tmlibp2p

// H-P2P, libp2p half of C20 (copied into a scratch copy of the repository by /verif/check; never part
// of /repo): three real tmlibp2p.Connection values on real go-libp2p-pubsub (gossipsub) over a
// mocknet line A - B - C inside the simulator's bubble. Only B's behaviour is varied: the verdict of
// its consensus handler per message (including out-of-range feedback values), and the handler state
// over time (none, installed, replaced, set to nil) with the replacement racing against arrivals:
// B's background goroutine carries statement yields (vinst), so the seeded scheduler can hold it
// between UnregisterTopicValidator and RegisterTopicValidator while messages are published.
// Oracle: C's handler sees message M only if B's installed handler was consulted for M and returned
// FeedbackAccepted. Nothing is demanded about messages that should arrive. In addition every run
// drives exchangeFeedbackToLibp2p over all 256 feedback values.
//
// pubsub's internal randomness (mesh selection, message ids) is not seedable; on a line it does not
// influence who can relay to whom. Only harness-level events are logged.

import (
	"context"
	"fmt"
	"log/slog"
	"strings"
	"sync"
	"time"

	pubsub "github.com/libp2p/go-libp2p-pubsub"
	"github.com/libp2p/go-libp2p/core/peer"
	mocknet "github.com/libp2p/go-libp2p/p2p/net/mock"

	"github.com/gordian-engine/gordian/gcrypto"
	"github.com/gordian-engine/gordian/gexchange"
	"github.com/gordian-engine/gordian/internal/vsel"
	"github.com/gordian-engine/gordian/internal/vsimcore"
	"github.com/gordian-engine/gordian/tm/tmcodec"
	"github.com/gordian-engine/gordian/tm/tmcodec/tmjson"
	"github.com/gordian-engine/gordian/tm/tmconsensus"
	"github.com/gordian-engine/gordian/tm/tmconsensus/tmconsensustest"
)

var Harnesses = map[string]vsimcore.Harness{"libp2p": runLibp2p}

func trunc(b []byte) string {
	if len(b) > 60 {
		return string(b[:60]) + "..."
	}
	return string(b)
}

type vpHandler struct {
	mu      sync.Mutex
	name    string
	verdict func(id uint64, kind string) gexchange.Feedback
	seen    func(id uint64, kind string, f gexchange.Feedback)
}

func (h *vpHandler) handle(id uint64, kind string) gexchange.Feedback {
	f := h.verdict(id, kind)
	if h.seen != nil {
		h.seen(id, kind, f)
	}
	return f
}
func (h *vpHandler) HandleProposedHeader(ctx context.Context, ph tmconsensus.ProposedHeader) gexchange.Feedback {
	return h.handle(ph.Header.Height, "ph")
}
func (h *vpHandler) HandlePrevoteProofs(ctx context.Context, p tmconsensus.PrevoteSparseProof) gexchange.Feedback {
	return h.handle(p.Height, "prevote")
}
func (h *vpHandler) HandlePrecommitProofs(ctx context.Context, p tmconsensus.PrecommitSparseProof) gexchange.Feedback {
	return h.handle(p.Height, "precommit")
}

func runLibp2p(s *vsimcore.Sim, p vsimcore.Params) vsimcore.RunInfo {
	var info vsimcore.RunInfo
	nMsgs := 3 + s.Choose("messages", 6)
	nSwaps := s.Choose("handler-changes", 4)
	startWithHandler := s.Pct("b-starts-with-handler", 70)

	// (1) the feedback mapping over every value
	var c0 Connection
	c0.log = slog.New(slog.DiscardHandler)
	for v := 0; v < 256; v++ {
		got := c0.exchangeFeedbackToLibp2p(gexchange.Feedback(v))
		want := pubsub.ValidationIgnore
		switch gexchange.Feedback(v) {
		case gexchange.FeedbackAccepted:
			want = pubsub.ValidationAccept
		case gexchange.FeedbackRejected:
			want = pubsub.ValidationReject
		}
		if got != want {
			s.Violate("C20/libp2p/feedback-mapping", "feedback value %d is mapped to pubsub validation result %d, want %d (accept only for accepted, reject only for rejected, ignore otherwise)", v, got, want)
		}
	}

	var mu sync.Mutex
	accepted := map[uint64]bool{}    // B's installed handler returned FeedbackAccepted for the message
	consulted := map[uint64]string{} // what B's handler answered
	arrivedC := map[uint64]bool{}
	bState := "no handler"
	relayed, published := 0, 0
	windowPublishes := 0

	fx := tmconsensustest.NewEd25519Fixture(2)

	s.Bubble(func() {
		s.Attach()
		defer vsimcore.Detach()
		// only B's background goroutine is scheduled statement by statement
		vsel.YieldFn = func(ctx context.Context, site string) {
			if vsimcore.Ident(ctx) == "B" {
				s.Park(ctx, "y", site)
			}
		}
		root, cancel := context.WithCancel(context.Background())
		defer cancel()
		log := slog.New(slog.DiscardHandler)

		mn := mocknet.New()
		var hosts []*Host
		for i := 0; i < 3; i++ {
			h, err := mn.GenPeer()
			if err != nil {
				panic(err)
			}
			ps, err := pubsub.NewGossipSub(root, h)
			if err != nil {
				panic(err)
			}
			hosts = append(hosts, &Host{h: h, ps: ps})
		}
		for _, pr := range [][2]int{{0, 1}, {1, 2}} {
			if _, err := mn.LinkPeers(hosts[pr[0]].h.ID(), hosts[pr[1]].h.ID()); err != nil {
				panic(err)
			}
		}
		jc := tmjson.MarshalCodec{CryptoRegistry: &fx.Registry}
		var conns []*Connection
		for i, h := range hosts[:2] {
			ctx := root
			if i == 1 {
				ctx = vsimcore.WithIdent(root, "B") // only B's background goroutine is scheduled statement by statement
			}
			done := make(chan *Connection, 1)
			go func() {
				c, err := NewConnection(ctx, log, h, jc)
				if err != nil {
					panic(err)
				}
				done <- c
			}()
			var c *Connection
			for c == nil {
				vsimcore.Wait()
				for _, n := range s.Parked() {
					s.Release(n)
				}
				select {
				case c = <-done:
				default:
					time.Sleep(10 * time.Millisecond)
				}
			}
			conns = append(conns, c)
		}
		// C is a plain pubsub peer that sees every payload relayed to it, decodable or not
		payloadID := map[string]uint64{}
		onArrival := func(data []byte) {
			mu.Lock()
			defer mu.Unlock()
			id, known := payloadID[string(data)]
			if !known {
				s.Violate("C20/libp2p/unknown-payload-relayed", "a payload nobody published reached C: %q", trunc(data))
				return
			}
			if arrivedC[id] {
				return
			}
			arrivedC[id] = true
			relayed++
			s.Logf("C received message %d; B: %s", id, consulted[id])
			if !accepted[id] {
				how := consulted[id]
				if how == "" {
					how = "B's handler was never consulted for it"
				}
				s.Violate("C20/libp2p/relayed-without-accept", "message %d (%s) reached C although B's handler did not accept it (%s)", id, trunc(data), how)
			}
		}
		if err := hosts[2].ps.RegisterTopicValidator(topicConsensus, func(_ context.Context, _ peer.ID, msg *pubsub.Message) pubsub.ValidationResult {
			onArrival(msg.Data)
			return pubsub.ValidationAccept
		}); err != nil {
			panic(err)
		}
		cTopic, err := hosts[2].ps.Join(topicConsensus)
		if err != nil {
			panic(err)
		}
		cSub, err := cTopic.Subscribe()
		if err != nil {
			panic(err)
		}
		go func() {
			for {
				if _, err := cSub.Next(root); err != nil {
					return
				}
			}
		}()
		for _, pr := range [][2]int{{0, 1}, {1, 2}} {
			if _, err := mn.ConnectPeers(hosts[pr[0]].h.ID(), hosts[pr[1]].h.ID()); err != nil {
				panic(err)
			}
		}
		settle := func(d time.Duration) {
			// let B's parked statements pass and fake time run
			end := time.Now().Add(d)
			for time.Now().Before(end) {
				vsimcore.Wait()
				for _, n := range s.Parked() {
					s.Release(n)
				}
				time.Sleep(50 * time.Millisecond)
			}
			vsimcore.Wait()
		}
		setHandler := func(c *Connection, h tmconsensus.ConsensusHandler, free bool) (finished chan struct{}) {
			finished = make(chan struct{})
			go func() {
				defer close(finished)
				c.SetConsensusHandler(root, h)
			}()
			if free {
				for {
					vsimcore.Wait()
					for _, n := range s.Parked() {
						s.Release(n)
					}
					select {
					case <-finished:
						return
					default:
						time.Sleep(10 * time.Millisecond)
					}
				}
			}
			return
		}
		// A accepts everything (its own publishes are validated locally too)
		setHandler(conns[0], &vpHandler{name: "A", verdict: func(uint64, string) gexchange.Feedback { return gexchange.FeedbackAccepted }}, true)
		// the verdicts of B's handlers are drawn when the message is published (the handler runs on pubsub goroutines)
		verdicts := map[uint64]gexchange.Feedback{}
		mkB := func(gen int) *vpHandler {
			return &vpHandler{name: fmt.Sprintf("B%d", gen), verdict: func(id uint64, kind string) gexchange.Feedback {
				mu.Lock()
				defer mu.Unlock()
				f, ok := verdicts[id]
				if !ok {
					f = gexchange.FeedbackIgnored
				}
				consulted[id] = fmt.Sprintf("handler generation %d answered feedback %d", gen, f)
				if f == gexchange.FeedbackAccepted {
					accepted[id] = true
				}
				return f
			}}
		}
		gen := 0
		if startWithHandler {
			gen++
			setHandler(conns[1], mkB(gen), true)
			bState = "handler installed"
		}
		settle(3 * time.Second) // mesh formation

		nextID := uint64(100)
		publish := func() {
			nextID++
			id := nextID
			fbs := []gexchange.Feedback{gexchange.FeedbackAccepted, gexchange.FeedbackRejected, gexchange.FeedbackIgnored, gexchange.Feedback(0), gexchange.Feedback(7), gexchange.Feedback(200)}
			f := fbs[s.ChooseW("b-verdict", []int{4, 3, 3, 1, 1, 1})]
			mu.Lock()
			verdicts[id] = f
			published++
			mu.Unlock()
			kind := s.ChooseW("kind", []int{2, 2, 3, 1, 2, 1})
			s.Logf("A publishes message %d kind %d; B's handler would answer %d; B state: %s", id, kind, f, bState)
			var data []byte
			switch kind {
			case 0:
				ph := fx.NextProposedHeader([]byte("data"), 0)
				ph.Header.Height = id
				data, _ = jc.MarshalConsensusMessage(tmcodec.ConsensusMessage{ProposedHeader: &ph})
			case 1:
				data, _ = jc.MarshalConsensusMessage(tmcodec.ConsensusMessage{PrevoteProof: &tmconsensus.PrevoteSparseProof{Height: id, Round: 0, PubKeyHash: "x", Proofs: map[string][]gcrypto.SparseSignature{}}})
			case 2:
				data, _ = jc.MarshalConsensusMessage(tmcodec.ConsensusMessage{PrecommitProof: &tmconsensus.PrecommitSparseProof{Height: id, Round: 0, PubKeyHash: "x", Proofs: map[string][]gcrypto.SparseSignature{}}})
			case 3:
				data = []byte(fmt.Sprintf("not a consensus message %d", id)) // undecodable
			case 4:
				data = []byte(fmt.Sprintf(`{"Unknown":{"x":%d}}`, id)) // decodes, but carries no consensus message
			case 5:
				data = []byte(fmt.Sprintf(`{ %s}`, strings.Repeat(" ", int(id%50)))) // an empty object
			}
			mu.Lock()
			payloadID[string(data)] = id
			mu.Unlock()
			go func() {
				// straight onto the topic: A's own validator lets its own publishes pass once it has a handler
				_ = conns[0].consensusTopic.Publish(root, data)
			}()
		}

		var swapDone chan struct{}
		swapsLeft := nSwaps
		msgsLeft := nMsgs
		for step := 0; step < 400 && !s.Failed() && !s.Expired(); step++ {
			vsimcore.Wait()
			if swapDone != nil {
				select {
				case <-swapDone:
					swapDone = nil
					s.Logf("B handler change complete: %s", bState)
				default:
				}
			}
			var acts []vsimcore.Action
			acts = append(acts, s.ParkActions(nil)...)
			if msgsLeft > 0 {
				acts = append(acts, vsimcore.Action{Name: "publish", Weight: 3, Do: func() {
					msgsLeft--
					if swapDone != nil {
						windowPublishes++
					}
					publish()
				}})
			}
			if swapsLeft > 0 && swapDone == nil {
				acts = append(acts, vsimcore.Action{Name: "change B's handler", Weight: 2, Do: func() {
					swapsLeft--
					if s.Pct("to-nil", 25) {
						bState = "handler being cleared"
						swapDone = setHandler(conns[1], nil, false)
						s.Logf("B: SetConsensusHandler(nil) begins")
						return
					}
					gen++
					bState = fmt.Sprintf("handler being replaced by generation %d", gen)
					swapDone = setHandler(conns[1], mkB(gen), false)
					s.Logf("B: SetConsensusHandler(generation %d) begins", gen)
				}})
			}
			acts = append(acts, vsimcore.Action{Name: "time passes", Weight: 2, Do: func() { time.Sleep(time.Duration(50+s.Choose("ms", 400)) * time.Millisecond) }})
			if msgsLeft == 0 && swapsLeft == 0 && swapDone == nil && len(s.Parked()) == 0 {
				break
			}
			s.Pick(acts)
		}
		settle(3 * time.Second)
		info.SimNs = int64(s.SimTime())
		info.Nontrivial = published > 0
		info.Extra = map[string]int{"published": published, "relayed_to_C": relayed, "published_during_handler_change": windowPublishes}
		info.States = []string{fmt.Sprintf("m%d/s%d/r%d/w%d/h%t", nMsgs, nSwaps, relayed, windowPublishes, startWithHandler)}
		info.Sample = map[string]any{"harness": "libp2p", "messages": nMsgs, "handler_changes": nSwaps, "relayed_to_C": relayed, "published_during_handler_change": windowPublishes}
		s.Checkpoint(info)
		s.Freeze()
		s.Stop()
		cancel()
		cSub.Cancel()
		for _, c := range conns {
			c.Disconnect()
		}
		for _, h := range hosts {
			_ = h.Close()
		}
		_ = mn.Close()
		time.Sleep(2 * time.Second)
	})
	return info
}
