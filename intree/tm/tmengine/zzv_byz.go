//go:build verif

package tmengine

// Byzantine behaviour at the network level: the adversary holds the keys of the Byzantine
// validators and forges conflicting votes and proposals from what their engines send.

import (
	"context"
	"encoding/binary"
	"fmt"

	"github.com/gordian-engine/gordian/gcrypto"
	"github.com/gordian-engine/gordian/internal/vsimcore"
	"github.com/gordian-engine/gordian/tm/tmcodec"
	"github.com/gordian-engine/gordian/tm/tmconsensus"
)

func (w *vzWorld) sign(idx int, b []byte) []byte {
	sig, err := w.fx.PrivVals[idx].Signer.Sign(context.Background(), b)
	if err != nil {
		panic(err)
	}
	return sig
}

func vzKeyID(i int) []byte {
	b := make([]byte, 2)
	binary.BigEndian.PutUint16(b, uint16(i))
	return b
}

// byzActions offers, while equivocation is enabled, forged conflicting messages.
func (w *vzWorld) byzActions() []vsimcore.Action {
	if w.cfg.rEquivocate <= 0 || w.cfg.nByz == 0 {
		return nil
	}
	s := w.s
	if !s.Pct("equivocate", w.cfg.rEquivocate/10) {
		return nil
	}
	// pick a Byzantine validator and a round some correct node is in
	b := w.cfg.nVal - 1 - s.Choose("byz-who", w.cfg.nByz)
	ref := w.nodes[s.Choose("byz-ref", w.cfg.nVal-w.cfg.nByz)]
	w.mu.Lock()
	h, r := ref.curH, ref.curR
	w.mu.Unlock()
	if h == 0 {
		return nil
	}
	if s.Pct("byz-next-round", 20) {
		r++
	}
	vs, ok := w.orc.valSetFor(h)
	if !ok {
		return nil
	}
	// index of the Byzantine validator in that height's set
	idx := -1
	for i, v := range vs.Validators {
		if v.PubKey.Equal(w.fx.PrivVals[b].Val.PubKey) {
			idx = i
		}
	}
	if idx < 0 {
		return nil
	}
	// candidate targets: nil, every proposal hash seen on the wire for (h, r), and a made-up hash
	targets := []string{"", "made-up-block-hash"}
	w.mu.Lock()
	for _, hsh := range w.orc.w.seenProposals[fmt.Sprintf("%d/%d", h, r)] {
		targets = append(targets, hsh)
	}
	w.mu.Unlock()
	kind := s.Choose("byz-kind", 2)
	// two different targets to two disjoint audiences
	t1 := targets[s.Choose("byz-t1", len(targets))]
	t2 := targets[s.Choose("byz-t2", len(targets))]
	var aud1, aud2 []int
	if len(targets) > 2 && s.Pct("byz-victim", 40) {
		// a targeted split: one correct node (the same one throughout the run) is told that the Byzantine
		// validator voted for a real proposal, everybody else that it voted nil (or for another proposal)
		if w.byzVictim < 0 {
			w.byzVictim = s.Choose("byz-victim-node", w.cfg.nVal-w.cfg.nByz)
		}
		t1 = targets[2+s.Choose("byz-victim-target", len(targets)-2)]
		if t2 == t1 {
			t2 = ""
		}
		for i := 0; i < w.cfg.nVal; i++ {
			if i == b {
				continue
			}
			if i == w.byzVictim {
				aud1 = append(aud1, i)
			} else {
				aud2 = append(aud2, i)
			}
		}
		s.Probe("byzantine_split_aimed_at_one_node")
	} else {
		for i := 0; i < w.cfg.nVal; i++ {
			if i == b {
				continue
			}
			if s.Pct("byz-aud", 50) {
				aud1 = append(aud1, i)
			} else {
				aud2 = append(aud2, i)
			}
		}
	}
	mk := func(target string) tmcodec.ConsensusMessage {
		vt := tmconsensus.VoteTarget{Height: h, Round: r, BlockHash: target}
		if kind == 0 {
			sb, _ := tmconsensus.PrevoteSignBytes(vt, w.fx.SignatureScheme)
			return tmcodec.ConsensusMessage{PrevoteProof: &tmconsensus.PrevoteSparseProof{Height: h, Round: r, PubKeyHash: string(vs.PubKeyHash),
				Proofs: map[string][]gcrypto.SparseSignature{target: {{KeyID: vzKeyID(idx), Sig: w.sign(b, sb)}}}}}
		}
		sb, _ := tmconsensus.PrecommitSignBytes(vt, w.fx.SignatureScheme)
		return tmcodec.ConsensusMessage{PrecommitProof: &tmconsensus.PrecommitSparseProof{Height: h, Round: r, PubKeyHash: string(vs.PubKeyHash),
			Proofs: map[string][]gcrypto.SparseSignature{target: {{KeyID: vzKeyID(idx), Sig: w.sign(b, sb)}}}}}
	}
	k := []string{"prevote", "precommit"}[kind]
	w.inject(b, aud1, mk(t1), k)
	w.inject(b, aud2, mk(t2), k)
	s.Fault("byzantine_equivocation")
	s.Logf("fault: n%d equivocates %s %d/%d: %x to %v, %x to %v", b, k, h, r, trunc(t1), aud1, trunc(t2), aud2)
	w.lastFaultStep = s.Steps
	return nil
}
