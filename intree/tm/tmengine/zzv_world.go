//go:build verif

package tmengine

// The simulated world of the engine harnesses: N real engines in one synctest bubble, each
// with the real ChattyStrategy, its own (wrapped) memstores, a reference consensus strategy,
// a deterministic application, a harness round timer, and a simulated network that carries
// tmjson frames. Copied into a scratch copy of the repository by /verif/check.

import (
	"encoding/json"
	"bytes"
	"context"
	"fmt"
	"log/slog"
	"os"
	"sort"
	"strconv"
	"strings"
	"sync"
	"time"

	"github.com/gordian-engine/gordian/gcrypto"
	"github.com/gordian-engine/gordian/gwatchdog"
	"github.com/gordian-engine/gordian/internal/gchan"
	"github.com/gordian-engine/gordian/internal/vsimcore"
	"github.com/gordian-engine/gordian/tm/tmcodec"
	"github.com/gordian-engine/gordian/tm/tmcodec/tmjson"
	"github.com/gordian-engine/gordian/tm/tmconsensus"
	"github.com/gordian-engine/gordian/tm/tmconsensus/tmconsensustest"
	"github.com/gordian-engine/gordian/tm/tmdriver"
	"github.com/gordian-engine/gordian/tm/tmengine/internal/tmeil"
	"github.com/gordian-engine/gordian/tm/tmengine/internal/tmstate"
	"github.com/gordian-engine/gordian/tm/tmengine/tmelink"
	"github.com/gordian-engine/gordian/tm/tmgossip"
)

var vzDebugInflight = os.Getenv("VSIM_DEBUG_INFLIGHT") != ""

type vzConfig struct {
	nVal, nByz       int
	powers           []uint64
	heights          uint64
	initialHeight    uint64
	parkStores       bool
	rotate           bool
	rotatePowersOnly bool
	surge            bool // with rotate: the total power triples with every height
	dropDupMapper    bool
	maxSteps         int
	progressWindow   int // steps without any finalization after which the run is cut off (0 = maxSteps/4)
	// fault rates, per thousand scheduler steps (0 = kind disabled in this run)
	rDup, rReplay, rEarlyTimer, rCrash, rPartition, rCorrupt, rEquivocate, rStall int
	rLull                                                                         int // per cent, drawn every 16th step: inputs pause until the nodes are quiet, then C11 currency is judged
	rCancel                                                                       int // cancel the context of a message handler in flight (a p2p validator deadline)
	rStarve                                                                       int // one kind of message to one node is delayed for a long stretch (votes overtake proposals, precommits overtake prevotes)
	netRecover                                                                    bool // H-NET: frames lost to a down node are retransmitted, lagging nodes are fed committed headers of their peers (header sync), partitions heal when nothing else is left to do
	byzProposals                                                                  bool // H-NET: a Byzantine proposer's header goes out in two versions to two audiences
	oracles                                                                       map[string]bool
}

type vzMsg struct {
	id       int
	from, to int
	kind     string
	data     []byte
	key      string // canonical identity of the content (frame bytes depend on map iteration order in the codec); set for proposed headers
}

type vzTimer struct {
	name      string
	node, inc int
	ch        chan struct{}
	cancelled bool
	fired     bool
}

type vzWorld struct {
	s   *vsimcore.Sim
	cfg vzConfig

	fx    *tmconsensustest.Fixture
	codec tmjson.MarshalCodec
	log   *slog.Logger

	rootCtx    context.Context
	rootCancel context.CancelFunc

	mu       sync.Mutex
	nodes    []*vzNode
	inflight []*vzMsg
	sentLog  []*vzMsg
	nextMsg  int
	timers   []*vzTimer
	blocked  map[[2]int]bool // partitioned links
	stalled  map[int]int     // node -> steps left

	crashNode    int
	crashAtWrite int
	pendingCrash bool

	lastFaultStep int
	lullBehind    map[int]bool   // messages behind whose delivery a lull is especially telling
	phAccepted    map[uint64]int // height -> proposed headers a node has accepted (H-NODE: the one node)
	lull          int            // 0 = normal, 1 = inputs paused and draining, 2 = view snapshots requested
	lullSnaps     []*vzLullSnap
	handlerSends  map[string]int
	handlerCancel map[int]context.CancelFunc // running message handlers, by message id
	handlerLast   map[int]string             // the request each running handler made last
	endReason     string                     // why run() returned: done, quiescent (nothing left to do), cutoff (no progress for long), limit
	beyondModel   bool                       // validators holding >= 1/3 of the power have equivocated in some round
	progressAt    int                        // step of the last finalization anywhere (0 = none yet)
	notes         []string
	seenProposals map[string][]string // "h/r" -> proposal hashes seen on the wire
	lastErr       map[string]string   // node ident -> last ERROR log line of its engine
	replayEnabled bool
	adv           *vzAdv
	byzVictim     int // the correct node a Byzantine validator's targeted splits are aimed at (-1: not chosen yet)
	starveNode    int
	starveKind    string
	starveData    string           // if set: only frames with this content key (one proposed header and all its copies from other peers) are delayed
	starveLeft    int              // steps for which frames of starveKind addressed to starveNode stay in flight
	lost          map[int][]*vzMsg // frames that were dropped because the recipient was down, per recipient (retransmitted later)
	syncBusy      map[int]bool     // a header-sync request to that node is in flight
	nSync         int
	recoveries    int

	orc vzOracles
}

type vzNode struct {
	w    *vzWorld
	idx  int
	inc  int
	byz  bool
	disk *vzDisk

	ctx     context.Context
	cancel  context.CancelFunc
	dead    bool          // the current incarnation was killed
	stopped chan struct{} // closed when the killed incarnation has fully unwound
	down    bool          // no incarnation running
	ready   chan struct{}
	e       *Engine
	newErr  error
	gs      *tmgossip.ChattyStrategy
	wd      *gwatchdog.Watchdog

	gossipIn chan tmelink.NetworkViewUpdate
	replayCh chan tmelink.ReplayedHeaderRequest

	curH uint64
	curR uint32

	fin        map[uint64]string
	finSeq     []uint64
	signed     map[string]map[string]bool // kind/h/r -> sign bytes of signatures that left the signer for good (stored or released)
	lastSigned map[string]string          // kind/h/r -> sign bytes the signer produced last (may die with the process before it is stored)
}

func (nd *vzNode) ident() string { return fmt.Sprintf("n%d.%d", nd.idx, nd.inc) }
func (nd *vzNode) isDead() bool  { nd.w.mu.Lock(); defer nd.w.mu.Unlock(); return nd.dead }

// gone reports that incarnation inc of the node is no longer the running one.
func (nd *vzNode) gone(inc int) bool {
	nd.w.mu.Lock()
	defer nd.w.mu.Unlock()
	return nd.dead || nd.inc != inc
}

// vzLogHandler keeps the last ERROR record per node (used to name the cause when a component
// stops silently) and optionally echoes everything to stderr.
type vzLogHandler struct {
	w     *vzWorld
	node  string
	attrs string
	echo  slog.Handler
}

func (h vzLogHandler) Enabled(_ context.Context, l slog.Level) bool {
	return l >= slog.LevelError || h.echo != nil
}
func (h vzLogHandler) Handle(ctx context.Context, r slog.Record) error {
	if r.Level >= slog.LevelError && h.node != "" {
		msg := r.Message
		r.Attrs(func(a slog.Attr) bool {
			if a.Key == "err" {
				msg += ": " + a.Value.String()
			}
			return true
		})
		if !strings.Contains(msg, "context canceled") {
			h.w.mu.Lock()
			h.w.lastErr[h.node] = msg
			h.w.mu.Unlock()
		}
	}
	if h.echo != nil {
		return h.echo.Handle(ctx, r)
	}
	return nil
}
func (h vzLogHandler) WithAttrs(as []slog.Attr) slog.Handler {
	n := h
	for _, a := range as {
		if a.Key == "vznode" {
			n.node = a.Value.String()
		}
	}
	if h.echo != nil {
		n.echo = h.echo.WithAttrs(as)
	}
	return n
}
func (h vzLogHandler) WithGroup(g string) slog.Handler {
	n := h
	if h.echo != nil {
		n.echo = h.echo.WithGroup(g)
	}
	return n
}

func (w *vzWorld) newLogger() *slog.Logger {
	h := vzLogHandler{w: w}
	if os.Getenv("VSIM_ENGINE_LOG") != "" {
		h.echo = slog.NewTextHandler(os.Stderr, &slog.HandlerOptions{Level: slog.LevelDebug})
	}
	return slog.New(h)
}

func newVzWorld(s *vsimcore.Sim, cfg vzConfig) *vzWorld {
	w := &vzWorld{s: s, cfg: cfg, handlerSends: map[string]int{}, handlerCancel: map[int]context.CancelFunc{}, handlerLast: map[int]string{}, lullBehind: map[int]bool{}, lastErr: map[string]string{}, blocked: map[[2]int]bool{}, stalled: map[int]int{}, seenProposals: map[string][]string{}, byzVictim: -1}
	privVals := tmconsensustest.DeterministicValidatorsEd25519(cfg.nVal)
	for i := range privVals {
		privVals[i].Val.Power = cfg.powers[i]
	}
	var reg gcrypto.Registry
	gcrypto.RegisterEd25519(&reg)
	fx := tmconsensustest.NewBareFixture()
	fx.Registry = reg
	fx.PrivVals = privVals
	w.fx = fx
	w.codec = tmjson.MarshalCodec{CryptoRegistry: &fx.Registry}
	w.log = w.newLogger()
	w.orc.init(w)
	return w
}

// foreignPrivVals returns n deterministic validators whose keys are not in the chain's validator set.
func (w *vzWorld) foreignPrivVals(n int) tmconsensustest.PrivVals {
	all := tmconsensustest.DeterministicValidatorsEd25519(w.cfg.nVal + n)
	return all[w.cfg.nVal:]
}

func (w *vzWorld) note(f string, a ...any) {
	l := fmt.Sprintf(f, a...)
	w.s.Logf("%s", l)
	if len(w.notes) < 40 {
		w.notes = append(w.notes, l)
	}
}

// ---------------------------------------------------------------- hooks shared by all worlds

func (w *vzWorld) installHooks() {
	s := w.s
	s.AttachSelect()
	s.AttachCases(func(ctx context.Context, site string, v any) {
		nd := w.nodeByIdent(vsimcore.Ident(ctx))
		if nd == nil {
			return
		}
		switch x := v.(type) {
		case tmeil.StateMachineRoundView:
			w.orc.onSMView(nd, x)
		case tmeil.StateMachineRoundEntrance:
			w.orc.onRoundEntrance(nd, x)
		case tmeil.StateMachineRoundAction:
			w.orc.onSMAction(nd, x)
		}
	})
	gchan.SimYield = func(ctx context.Context, op, label string) {
		id := vsimcore.Ident(ctx)
		// handler goroutines (message deliveries, local injections) stop at every send
		if strings.Contains(id, ".m") && op == "send" {
			// C09: every handled message returns. A handler that keeps talking to the kernel
			// without ever returning is wedged (bounded retries need a handful of requests).
			w.mu.Lock()
			w.handlerSends[id]++
			n := w.handlerSends[id]
			if i := strings.LastIndex(id, ".m"); i >= 0 {
				if mid, err := strconv.Atoi(id[i+2:]); err == nil {
					w.handlerLast[mid] = label
				}
			}
			w.mu.Unlock()
			if n == vzHandlerSendLimit {
				w.orc.violate("C09", "handler-never-returns", "%s: the handler of one message has made %d requests to the kernel without returning (last: %s)", id, n, label)
			}
			if n >= vzHandlerSendLimit {
				<-ctx.Done() // take the spinning goroutine out of the run
				return
			}
			s.Park(ctx, "gchan", label)
		}
	}
	VerifInterpose = func(ctx context.Context, e *Engine, smCfg *tmstate.StateMachineConfig, stage int) {
		id := vsimcore.Ident(ctx)
		nd := w.nodeByIdent(id)
		if nd == nil {
			return
		}
		if stage == 0 {
			// mirror -> gossip strategy
			gsrc := make(chan tmelink.NetworkViewUpdate)
			gdst := make(chan tmelink.NetworkViewUpdate)
			e.mCfg.GossipStrategyOut = gsrc
			nd.gossipIn = gdst
			go vzRelay(ctx, s, id, "gossip", gsrc, gdst, func(u tmelink.NetworkViewUpdate) { w.orc.onGossipUpdate(nd, u) })
			// proposed-header fetch requests of the mirror are recorded (nothing is ever fetched)
			freq := make(chan tmelink.ProposedHeaderFetchRequest, 256)
			e.mCfg.ProposedHeaderFetcher = tmelink.ProposedHeaderFetcher{FetchRequests: freq, FetchedProposedHeaders: make(chan tmconsensus.ProposedHeader)}
			go func() {
				for {
					select {
					case <-ctx.Done():
						return
					case r := <-freq:
						w.orc.onFetchRequest(nd, r.Height, r.BlockHash)
					}
				}
			}()
			return
		}
		// The view and round-entrance channels between mirror and state machine stay untouched:
		// the engine relies on their being unbuffered (synchronous hand-off). Both sides are
		// observed and parked right after they received a value (vinst "cases" mode).
	}
}

const vzHandlerSendLimit = 300

func (w *vzWorld) removeHooks() {
	VerifInterpose = nil
	gchan.SimYield = nil
	vsimcore.Detach()
}

// vzRelay is a one-slot pump: receptive only while empty, forwards only when the scheduler says so
// (exactly how a slow consumer on an unbuffered channel behaves).
func vzRelay[T any](ctx context.Context, s *vsimcore.Sim, id, name string, src <-chan T, dst chan<- T, observe func(T)) {
	for {
		select {
		case <-ctx.Done():
			return
		case v := <-src:
			s.ParkID(id, "relay", name)
			if ctx.Err() != nil {
				return
			}
			observe(v)
			select {
			case dst <- v:
			case <-ctx.Done():
				return
			}
		}
	}
}

func (w *vzWorld) nodeByIdent(id string) *vzNode {
	for _, nd := range w.nodes {
		if nd.ident() == id {
			return nd
		}
	}
	return nil
}

// ---------------------------------------------------------------- reference strategy / application

func (w *vzWorld) proposerIdx(vs tmconsensus.ValidatorSet, h uint64, r uint32) gcrypto.PubKey {
	if len(vs.Validators) == 0 {
		return nil
	}
	return vs.Validators[int((h+uint64(r))%uint64(len(vs.Validators)))].PubKey
}

type vzStrategy struct {
	nd  *vzNode
	inc int
	vs  tmconsensus.ValidatorSet
}

func (st *vzStrategy) park(label string) { st.nd.w.s.ParkID(st.nd.ident(), "strat", label) }

func (st *vzStrategy) EnterRound(ctx context.Context, rv tmconsensus.RoundView, out chan<- tmconsensus.Proposal) error {
	st.park("enter")
	nd := st.nd
	if nd.gone(st.inc) {
		return context.Canceled
	}
	nd.w.mu.Lock()
	nd.curH, nd.curR = rv.Height, rv.Round
	nd.w.mu.Unlock()
	st.vs = rv.ValidatorSet
	nd.w.s.Logf("%s enter round %d/%d", nd.ident(), rv.Height, rv.Round)
	nd.w.orc.onEnterRound(nd, rv)
	nd.w.orc.onStrategyOffered(nd, rv.Height, rv.Round, rv.ProposedHeaders, true)
	if out != nil {
		want := nd.w.proposerIdx(rv.ValidatorSet, rv.Height, rv.Round)
		if want != nil && want.Equal(nd.w.fx.PrivVals[nd.idx].Val.PubKey) {
			p := tmconsensus.Proposal{DataID: fmt.Sprintf("data-%d-%d-%d", rv.Height, rv.Round, nd.idx)}
			if nd.byz && nd.w.s.Pct("byz-proposal-data", 50) {
				p.DataID += "-alt"
			}
			select {
			case out <- p:
			case <-ctx.Done():
			}
		}
	}
	return nil
}

func (st *vzStrategy) asked(kind string, phs []tmconsensus.ProposedHeader) {
	st.nd.w.mu.Lock()
	h, r := st.nd.curH, st.nd.curR
	st.nd.w.mu.Unlock()
	st.nd.w.orc.onStrategyAsked(st.nd, kind, h, r, phs)
}

func (st *vzStrategy) pick(phs []tmconsensus.ProposedHeader) (string, bool) {
	nd := st.nd
	if len(phs) == 0 {
		return "", false
	}
	h := phs[0].Header.Height
	if nd.byz {
		c := nd.w.s.Choose("byz-prevote", len(phs)+2)
		if c == len(phs) {
			return "", true
		}
		if c == len(phs)+1 {
			return "", false
		}
		return string(phs[c].Header.Hash), true
	}
	if l := nd.disk.lock[h]; l != "" {
		return l, true
	}
	want := nd.w.proposerIdx(st.vs, h, phs[0].Round)
	var cands []string
	for _, ph := range phs {
		if ph.ProposerPubKey != nil && want != nil && ph.ProposerPubKey.Equal(want) {
			cands = append(cands, string(ph.Header.Hash))
		}
	}
	if len(cands) == 0 {
		return "", false
	}
	sort.Strings(cands)
	return cands[0], true
}

func (st *vzStrategy) ConsiderProposedBlocks(ctx context.Context, phs []tmconsensus.ProposedHeader, _ tmconsensus.ConsiderProposedBlocksReason) (string, error) {
	st.park("consider")
	if st.nd.gone(st.inc) {
		return "", context.Canceled
	}
	if len(phs) > 0 {
		st.nd.w.orc.onStrategyOffered(st.nd, phs[0].Header.Height, phs[0].Round, phs, false)
	}
	st.asked("consider", phs)
	if hsh, ok := st.pick(phs); ok {
		st.nd.w.s.Logf("%s consider -> %x", st.nd.ident(), trunc(hsh))
		return hsh, nil
	}
	return "", tmconsensus.ErrProposedBlockChoiceNotReady
}

func (st *vzStrategy) ChooseProposedBlock(ctx context.Context, phs []tmconsensus.ProposedHeader) (string, error) {
	st.park("choose")
	if st.nd.gone(st.inc) {
		return "", context.Canceled
	}
	st.asked("choose", phs)
	hsh, _ := st.pick(phs)
	if hsh == "" && !st.nd.byz {
		// nothing acceptable: prevote nil, unless locked
		st.nd.w.mu.Lock()
		h := st.nd.curH
		st.nd.w.mu.Unlock()
		hsh = st.nd.disk.lock[h]
	}
	st.nd.w.s.Logf("%s choose -> %x", st.nd.ident(), trunc(hsh))
	return hsh, nil
}

func (st *vzStrategy) DecidePrecommit(ctx context.Context, vs tmconsensus.VoteSummary) (string, error) {
	st.park("decide")
	nd := st.nd
	if nd.gone(st.inc) {
		return "", context.Canceled
	}
	nd.w.mu.Lock()
	h := nd.curH
	nd.w.mu.Unlock()
	if nd.byz {
		var hs []string
		for k := range vs.PrevoteBlockPower {
			hs = append(hs, k)
		}
		sort.Strings(hs)
		hs = append(hs, "")
		return hs[nd.w.s.Choose("byz-precommit", len(hs))], nil
	}
	mv := vs.MostVotedPrevoteHash
	out := ""
	// > 2/3 of the available power, computed here and not taken from the engine
	if mv != "" && 3*vs.PrevoteBlockPower[mv] > 2*vs.AvailablePower {
		if l := nd.disk.lock[h]; l == "" || l == mv {
			nd.disk.lock[h] = mv // durable before the answer leaves
			out = mv
		}
	}
	nd.w.s.Logf("%s decide precommit h=%d -> %x", nd.ident(), h, trunc(out))
	return out, nil
}

func trunc(s string) string {
	if len(s) > 4 {
		return s[:4]
	}
	return s
}

// nextValidators is the application's deterministic validator-set policy.
func (w *vzWorld) nextValidators(h uint64) []tmconsensus.Validator {
	vals := w.fx.PrivVals.Vals()
	if !w.cfg.rotate {
		return vals
	}
	out := make([]tmconsensus.Validator, len(vals))
	copy(out, vals)
	for i := range out {
		out[i].Power = w.cfg.powers[i] + (h+uint64(i))%3
		if w.cfg.surge {
			// stake grows a lot from height to height (same keys): thresholds computed from an older
			// total are far off
			f := uint64(1)
			for k := w.cfg.initialHeight; k <= h && k < w.cfg.initialHeight+8; k++ {
				f *= 3
			}
			out[i].Power *= f
		}
	}
	if w.cfg.rotatePowersOnly {
		return out // same keys in the same order, different powers
	}
	// rotate the order too (keys and powers both change from height to height)
	k := int(h % uint64(len(out)))
	out = append(out[k:], out[:k]...)
	return out
}

// ---------------------------------------------------------------- timers

type vzRT struct {
	nd  *vzNode
	inc int
}

func (r vzRT) mk(kind string, h uint64, rd uint32) (<-chan struct{}, func()) {
	w := r.nd.w
	w.mu.Lock()
	t := &vzTimer{name: fmt.Sprintf("n%d.%d:%s:%d/%d", r.nd.idx, r.inc, kind, h, rd), node: r.nd.idx, inc: r.inc, ch: make(chan struct{})}
	if r.nd.dead || r.nd.inc != r.inc {
		t.cancelled = true // requested by a process that is already dead
	}
	w.timers = append(w.timers, t)
	w.mu.Unlock()
	w.orc.onTimerStart(r.nd, kind, h, rd)
	return t.ch, func() {
		w.mu.Lock()
		t.cancelled = true
		w.mu.Unlock()
		w.orc.onTimerCancel(r.nd, kind, h, rd)
	}
}
func (r vzRT) ProposalTimer(_ context.Context, h uint64, rd uint32) (<-chan struct{}, func()) {
	return r.mk("proposal", h, rd)
}
func (r vzRT) PrevoteDelayTimer(_ context.Context, h uint64, rd uint32) (<-chan struct{}, func()) {
	return r.mk("prevotedelay", h, rd)
}
func (r vzRT) PrecommitDelayTimer(_ context.Context, h uint64, rd uint32) (<-chan struct{}, func()) {
	return r.mk("precommitdelay", h, rd)
}
func (r vzRT) CommitWaitTimer(_ context.Context, h uint64, rd uint32) (<-chan struct{}, func()) {
	return r.mk("commitwait", h, rd)
}

// ---------------------------------------------------------------- signer

type vzSigner struct {
	nd    *vzNode
	inc   int
	inner tmconsensus.PassthroughSigner
}

func (sg vzSigner) record(kind string, h uint64, r uint32, content []byte) {
	if sg.nd.gone(sg.inc) {
		return
	}
	sg.nd.w.orc.onSign(sg.nd, kind, h, r, content)
}
func (sg vzSigner) Prevote(ctx context.Context, vt tmconsensus.VoteTarget) ([]byte, []byte, error) {
	c, s, err := sg.inner.Prevote(ctx, vt)
	if err == nil {
		sg.record("prevote", vt.Height, vt.Round, c)
	}
	return c, s, err
}
func (sg vzSigner) Precommit(ctx context.Context, vt tmconsensus.VoteTarget) ([]byte, []byte, error) {
	c, s, err := sg.inner.Precommit(ctx, vt)
	if err == nil {
		sg.record("precommit", vt.Height, vt.Round, c)
	}
	return c, s, err
}
func (sg vzSigner) SignProposedHeader(ctx context.Context, ph *tmconsensus.ProposedHeader) error {
	err := sg.inner.SignProposedHeader(ctx, ph)
	if err == nil {
		c, _ := tmconsensus.ProposalSignBytes(ph.Header, ph.Round, ph.Annotations, sg.inner.SignatureScheme)
		sg.record("proposal", ph.Header.Height, ph.Round, c)
	}
	return err
}
func (sg vzSigner) PubKey() gcrypto.PubKey { return sg.inner.PubKey() }

// ---------------------------------------------------------------- broadcaster

type vzBroadcaster struct {
	ph chan tmconsensus.ProposedHeader
	pv chan tmconsensus.PrevoteSparseProof
	pc chan tmconsensus.PrecommitSparseProof
}

func (b vzBroadcaster) OutgoingProposedHeaders() chan<- tmconsensus.ProposedHeader       { return b.ph }
func (b vzBroadcaster) OutgoingPrevoteProofs() chan<- tmconsensus.PrevoteSparseProof     { return b.pv }
func (b vzBroadcaster) OutgoingPrecommitProofs() chan<- tmconsensus.PrecommitSparseProof { return b.pc }

// ---------------------------------------------------------------- node lifecycle

func (w *vzWorld) addNode(idx int, byz bool) *vzNode {
	nd := &vzNode{w: w, idx: idx, byz: byz, disk: newVzDisk(w.fx.HashScheme), fin: map[uint64]string{}, signed: map[string]map[string]bool{}, down: true}
	w.nodes = append(w.nodes, nd)
	return nd
}

// start brings up a new incarnation of nd on its disk (inside the bubble).
func (w *vzWorld) start(nd *vzNode) {
	w.mu.Lock()
	nd.inc++
	nd.dead, nd.down = false, false
	nd.stopped = make(chan struct{})
	nd.ready = make(chan struct{})
	nd.e, nd.newErr = nil, nil
	inc := nd.inc
	w.mu.Unlock()
	if inc > 1 {
		w.s.Note("restarted")
	}
	nctx, cancel := context.WithCancel(vsimcore.WithIdent(w.rootCtx, nd.ident()))
	nd.cancel = cancel
	nlog := w.log.With("vznode", nd.ident())
	wd, wctx := gwatchdog.NewNopWatchdog(nctx, nlog)
	nd.wd = wd
	nd.ctx = wctx
	id := nd.ident()
	s := w.s

	bc := vzBroadcaster{make(chan tmconsensus.ProposedHeader), make(chan tmconsensus.PrevoteSparseProof), make(chan tmconsensus.PrecommitSparseProof)}
	gs := tmgossip.NewChattyStrategy(wctx, nlog, bc)
	nd.gs = gs
	// network output pump
	go func() {
		for {
			select {
			case <-wctx.Done():
				return
			case ph := <-bc.ph:
				s.ParkID(id, "net", "out")
				w.broadcast(nd, tmcodec.ConsensusMessage{ProposedHeader: &ph}, "ph")
			case p := <-bc.pv:
				s.ParkID(id, "net", "out")
				w.broadcast(nd, tmcodec.ConsensusMessage{PrevoteProof: &p}, "prevote")
			case p := <-bc.pc:
				s.ParkID(id, "net", "out")
				w.broadcast(nd, tmcodec.ConsensusMessage{PrecommitProof: &p}, "precommit")
			}
		}
	}()

	initCh := make(chan tmdriver.InitChainRequest, 1)
	finCh := make(chan tmdriver.FinalizeBlockRequest)
	go func() { // the driver / application
		ic := initCh
		for {
			select {
			case <-wctx.Done():
				return
			case req, ok := <-ic:
				if !ok {
					ic = nil
					continue
				}
				s.ParkID(id, "driver", "init")
				select {
				case req.Resp <- tmdriver.InitChainResponse{AppStateHash: []byte("app-genesis")}:
				case <-wctx.Done():
					return
				}
			case fr := <-finCh:
				s.ParkID(id, "driver", "finalize")
				if nd.isDead() {
					return
				}
				hh := fr.Header.Height
				w.orc.onFinalize(nd, fr)
				resp := tmdriver.FinalizeBlockResponse{Height: hh, Round: fr.Round, BlockHash: fr.Header.Hash,
					Validators: w.nextValidators(hh), AppStateHash: []byte(fmt.Sprintf("app-%d-%x", hh, fr.Header.DataID))}
				select {
				case fr.Resp <- resp:
				case <-wctx.Done():
					return
				}
			}
		}
	}()

	var extra []Opt
	if w.replayEnabled {
		nd.replayCh = make(chan tmelink.ReplayedHeaderRequest)
		extra = append(extra, WithReplayedHeaderRequestChannel(nd.replayCh))
	}
	eg := &tmconsensus.ExternalGenesis{ChainID: "vsim-chain", InitialHeight: w.cfg.initialHeight, InitialAppState: new(bytes.Buffer), GenesisValidatorSet: w.fx.ValSet()}
	st := vzStores{nd: nd, d: nd.disk}
	strat := &vzStrategy{nd: nd, inc: inc}
	ready := nd.ready
	go func() {
		defer close(ready)
		e, err := New(wctx, nlog, append(extra,
			WithGenesis(eg),
			WithCommittedHeaderStore(vzCommittedHeaderStore{st}),
			WithFinalizationStore(vzFinalizationStore{st}),
			WithMirrorStore(vzMirrorStore{st}),
			WithRoundStore(vzRoundStore{st}),
			WithStateMachineStore(vzStateMachineStore{st}),
			WithValidatorStore(vzValidatorStore{st}),
			WithActionStore(vzActionStore{st}),
			WithHashScheme(w.fx.HashScheme),
			WithSignatureScheme(w.fx.SignatureScheme),
			WithCommonMessageSignatureProofScheme(w.fx.CommonMessageSignatureProofScheme),
			WithGossipStrategy(vzGossipShim{nd: nd, gs: gs}),
			WithConsensusStrategy(strat),
			WithInitChainChannel(initCh),
			WithBlockFinalizationChannel(finCh),
			WithInternalRoundTimer(vzRT{nd, inc}),
			WithWatchdog(wd),
			WithSigner(vzSigner{nd: nd, inc: inc, inner: tmconsensus.PassthroughSigner{Signer: w.fx.PrivVals[nd.idx].Signer, SignatureScheme: w.fx.SignatureScheme}}),
		)...)
		w.mu.Lock()
		nd.e, nd.newErr = e, err
		w.mu.Unlock()
		if err != nil {
			w.orc.onNewError(nd, err)
		}
	}()
	w.note("%s started", id)
}

// vzGossipShim hands the relayed gossip channel to the real strategy.
type vzGossipShim struct {
	nd *vzNode
	gs *tmgossip.ChattyStrategy
}

func (g vzGossipShim) Start(updates <-chan tmelink.NetworkViewUpdate) {
	if g.nd.gossipIn != nil {
		g.gs.Start(g.nd.gossipIn)
		return
	}
	g.gs.Start(updates)
}
func (g vzGossipShim) Wait() { g.gs.Wait() }

// crash kills the node's process: everything but the disk is lost.
func (w *vzWorld) crash(nd *vzNode) {
	w.mu.Lock()
	nd.dead = true
	stopped, ready, e, gs, wd := nd.stopped, nd.ready, nd.e, nd.gs, nd.wd
	for _, t := range w.timers {
		if t.node == nd.idx && t.inc == nd.inc {
			t.cancelled = true
		}
	}
	w.mu.Unlock()
	nd.cancel()
	w.s.KillIdent(nd.ident())
	w.orc.checkStoredHeadersIntact(nd)
	w.orc.onCrash(nd)
	w.s.Fault("crash")
	w.note("%s CRASH after %d durable writes", nd.ident(), nd.disk.writes)
	go func() {
		<-ready
		w.mu.Lock()
		e = nd.e
		w.mu.Unlock()
		if e != nil {
			e.Wait()
		}
		gs.Wait()
		wd.Wait()
		w.mu.Lock()
		nd.down = true
		w.mu.Unlock()
		close(stopped)
	}()
}

// ---------------------------------------------------------------- network

func (w *vzWorld) broadcast(from *vzNode, cm tmcodec.ConsensusMessage, kind string) {
	if from.isDead() {
		return // a dying process sends nothing more
	}
	b, err := w.codec.MarshalConsensusMessage(cm)
	if err != nil {
		panic(err)
	}
	w.orc.onWireFrame(from, cm, b)
	b = vzCanonFrame(b)
	w.mu.Lock()
	defer w.mu.Unlock()
	if cm.ProposedHeader != nil {
		k := fmt.Sprintf("%d/%d", cm.ProposedHeader.Header.Height, cm.ProposedHeader.Round)
		found := false
		for _, x := range w.seenProposals[k] {
			if x == string(cm.ProposedHeader.Header.Hash) {
				found = true
			}
		}
		if !found {
			w.seenProposals[k] = append(w.seenProposals[k], string(cm.ProposedHeader.Header.Hash))
		}
	}
	key, altKey := "", ""
	if cm.ProposedHeader != nil {
		key = fmt.Sprintf("ph/%x/%x", cm.ProposedHeader.Header.Hash, cm.ProposedHeader.Signature)
	}
	var alt []byte
	if from.byz && w.cfg.byzProposals && cm.ProposedHeader != nil && !bytes.HasSuffix(cm.ProposedHeader.Header.DataID, []byte("-fork")) {
		// its own proposal: a second header for the same height and round (equivocation);
		// somebody else's: now and then an out-of-turn proposal with the same content
		own := cm.ProposedHeader.ProposerPubKey != nil && cm.ProposedHeader.ProposerPubKey.Equal(w.fx.PrivVals[from.idx].Val.PubKey)
		if w.s.Pct("byz-two-proposals", map[bool]int{true: 70, false: 10}[own]) {
			alt, altKey = w.forkProposal(from, b)
		}
	}
	for j := range w.nodes {
		if j == from.idx {
			continue
		}
		data, k := b, key
		if alt != nil && w.s.Pct("byz-proposal-audience", 50) {
			data, k = alt, altKey
		}
		w.nextMsg++
		m := &vzMsg{id: w.nextMsg, from: from.idx, to: j, kind: kind, data: data, key: k}
		w.inflight = append(w.inflight, m)
		if len(w.sentLog) < 4000 {
			w.sentLog = append(w.sentLog, m)
		}
	}
	w.s.Probe("sent_" + kind)
}

// vzErrClass renders an error for the event log without the parts that depend on map iteration
// order inside the engine (which of several bad entries it happened to look at first).
func vzErrClass(err error) string {
	if err == nil {
		return "<nil>"
	}
	m := err.Error()
	if i := strings.Index(m, "for block hash"); i >= 0 {
		m = m[:i] + "for block hash ..."
	}
	return m
}

// vzCanonFrame re-encodes a tmjson frame canonically. The codec builds the "Proofs" / "Commits"
// arrays by ranging over Go maps, so the same message encodes to different byte strings from run to
// run; faults that address a frame by byte offset (bit corruption) would then not replay. The arrays
// are sorted (their order carries no meaning: they are decoded back into maps) and object keys come
// out in sorted order; the decoded message is the same.
func vzCanonFrame(b []byte) []byte {
	dec := json.NewDecoder(bytes.NewReader(b))
	dec.UseNumber()
	var v any
	if err := dec.Decode(&v); err != nil {
		return b
	}
	var walk func(x any)
	walk = func(x any) {
		switch t := x.(type) {
		case map[string]any:
			for k, e := range t {
				walk(e)
				if l, ok := e.([]any); ok && (k == "Proofs" || k == "Commits") {
					sort.SliceStable(l, func(i, j int) bool {
						bi, _ := json.Marshal(l[i])
						bj, _ := json.Marshal(l[j])
						return bytes.Compare(bi, bj) < 0
					})
				}
			}
		case []any:
			for _, e := range t {
				walk(e)
			}
		}
	}
	walk(v)
	out, err := json.Marshal(v)
	if err != nil {
		return b
	}
	return out
}

// forkProposal: the Byzantine proposer signs a second, different header for the same height and
// round (proposal equivocation); some peers get the one, some the other. Called with w.mu held.
func (w *vzWorld) forkProposal(from *vzNode, frame []byte) ([]byte, string) {
	var cm tmcodec.ConsensusMessage
	if err := w.codec.UnmarshalConsensusMessage(frame, &cm); err != nil || cm.ProposedHeader == nil {
		return nil, ""
	}
	ph := *cm.ProposedHeader
	ph.Header.DataID = append(append([]byte(nil), ph.Header.DataID...), []byte("-fork")...)
	w.fx.RecalculateHash(&ph.Header)
	w.fx.SignProposal(context.Background(), &ph, from.idx)
	b, err := w.codec.MarshalConsensusMessage(tmcodec.ConsensusMessage{ProposedHeader: &ph})
	if err != nil {
		return nil, ""
	}
	k := fmt.Sprintf("%d/%d", ph.Header.Height, ph.Round)
	w.seenProposals[k] = append(w.seenProposals[k], string(ph.Header.Hash))
	w.s.Fault("byzantine_proposal_equivocation")
	w.s.Logf("fault: n%d proposes a second header %x for %s", from.idx, trunc(string(ph.Header.Hash)), k)
	return vzCanonFrame(b), fmt.Sprintf("ph/%x/%x", ph.Header.Hash, ph.Signature)
}

// healAll ends every partition and stall (the faults stop); it reports whether anything changed.
func (w *vzWorld) healAll() bool {
	w.mu.Lock()
	defer w.mu.Unlock()
	if len(w.blocked) == 0 && len(w.stalled) == 0 {
		return false
	}
	w.blocked = map[[2]int]bool{}
	w.stalled = map[int]int{}
	w.recoveries++
	w.s.Fault("heal")
	w.s.Logf("recovery: nothing left to do, every partition and stall ends")
	return true
}

// recoveryActions: retransmission of frames that were lost because the recipient was down, and
// header sync (a node that lacks a height some correct peer has committed is offered that peer's
// committed header through the engine's replayed-header channel, as a header-sync service would).
func (w *vzWorld) recoveryActions() []vsimcore.Action {
	var acts []vsimcore.Action
	w.mu.Lock()
	defer w.mu.Unlock()
	for _, nd := range w.nodes {
		nd := nd
		if nd.down || nd.dead || nd.e == nil {
			continue
		}
		if n := len(w.lost[nd.idx]); n > 0 {
			acts = append(acts, vsimcore.Action{Name: fmt.Sprintf("retransmit to n%d", nd.idx), Weight: 1, Do: func() {
				w.mu.Lock()
				l := w.lost[nd.idx]
				k := len(l)
				if k > 40 {
					k = 40
				}
				for _, m := range l[:k] {
					w.nextMsg++
					w.inflight = append(w.inflight, &vzMsg{id: w.nextMsg, from: m.from, to: m.to, kind: m.kind, data: m.data, key: m.key})
				}
				w.lost[nd.idx] = l[k:]
				w.mu.Unlock()
				w.s.Fault("lost_frames_retransmitted")
				w.s.Logf("retransmit %d lost frames to n%d", k, nd.idx)
			}})
		}
		if nd.byz || nd.replayCh == nil || w.syncBusy[nd.idx] {
			continue
		}
		next := w.cfg.initialHeight
		for {
			if _, ok := nd.disk.commitCH[next]; !ok {
				break
			}
			next++
		}
		var donor *vzNode
		for _, o := range w.nodes {
			if o != nd && !o.byz {
				if _, ok := o.disk.commitCH[next]; ok {
					donor = o
					break
				}
			}
		}
		if donor == nil {
			continue
		}
		h := next
		acts = append(acts, vsimcore.Action{Name: fmt.Sprintf("header sync n%d h%d", nd.idx, h), Weight: 1, Do: func() { w.headerSync(nd, donor, h) }})
	}
	return acts
}

func (w *vzWorld) headerSync(nd, donor *vzNode, h uint64) {
	// the header crosses the wire: the receiver gets its own copy
	src := donor.disk.commitCH[h]
	b, err := w.codec.MarshalCommittedHeader(src)
	if err != nil {
		panic(err)
	}
	var ch tmconsensus.CommittedHeader
	if err := w.codec.UnmarshalCommittedHeader(b, &ch); err != nil {
		panic(err)
	}
	w.mu.Lock()
	if w.syncBusy == nil {
		w.syncBusy = map[int]bool{}
	}
	w.syncBusy[nd.idx] = true
	w.nSync++
	id := w.nSync
	ctx, replayCh, ident := nd.ctx, nd.replayCh, nd.ident()
	w.mu.Unlock()
	w.s.Fault("header_sync_offered")
	w.s.Logf("header sync %d: n%d is offered the header n%d committed at height %d (round %d)", id, nd.idx, donor.idx, h, ch.Proof.Round)
	go func() {
		defer func() {
			w.mu.Lock()
			delete(w.syncBusy, nd.idx)
			w.mu.Unlock()
		}()
		w.s.ParkID(fmt.Sprintf("%s.sync%d", ident, id), "replay", "send")
		if ctx.Err() != nil {
			return // the process has died meanwhile
		}
		// open finding (C09, "replay for earlier round"): a genuine replay whose commit round is below the
		// node's voting round panics the kernel; the sync service does not offer those
		if n := len(nd.disk.nhr); n > 0 && nd.disk.nhr[n-1][0] == h && uint64(ch.Proof.Round) < nd.disk.nhr[n-1][1] {
			w.s.Probe("header_sync_withdrawn_voting_round_beyond_commit_round")
			return
		}
		resp := make(chan tmelink.ReplayedHeaderResponse, 1)
		select {
		case replayCh <- tmelink.ReplayedHeaderRequest{Header: ch.Header, Proof: ch.Proof, Resp: resp}:
		case <-ctx.Done():
			return
		}
		select {
		case r := <-resp:
			if ctx.Err() != nil {
				// answered by a dying process (its kernel took the request while it was unwinding):
				// the same as no answer, whichever of the two the runtime happened to pick
				w.orc.onReplayUnanswered(nd, ch.Header)
				return
			}
			// the kernel runs on after it has answered: wait for the scheduler before touching the log
			w.s.ParkID(fmt.Sprintf("%s.sync%d", ident, id), "replay", "result")
			if ctx.Err() != nil {
				w.orc.onReplayUnanswered(nd, ch.Header)
				return
			}
			w.s.Logf("header sync %d => err=%s", id, vzErrClass(r.Err))
			if r.Err == nil {
				w.s.Probe("header_sync_accepted")
			} else {
				w.s.Probe("header_sync_refused")
			}
			w.orc.onReplayResult(nd, ch.Header, ch.Proof, "valid", r.Err)
		case <-ctx.Done():
			w.orc.onReplayUnanswered(nd, ch.Header)
		}
	}()
}

// inject puts a harness-made message on the wire to the given recipients.
func (w *vzWorld) inject(from int, to []int, cm tmcodec.ConsensusMessage, kind string) {
	b, err := w.codec.MarshalConsensusMessage(cm)
	if err != nil {
		panic(err)
	}
	b = vzCanonFrame(b)
	w.mu.Lock()
	defer w.mu.Unlock()
	for _, j := range to {
		w.nextMsg++
		m := &vzMsg{id: w.nextMsg, from: from, to: j, kind: kind, data: b}
		w.inflight = append(w.inflight, m)
		if len(w.sentLog) < 4000 {
			w.sentLog = append(w.sentLog, m)
		}
	}
}

func (w *vzWorld) deliver(m *vzMsg) {
	nd := w.nodes[m.to]
	w.mu.Lock()
	hint := w.lullBehind[m.id]
	w.mu.Unlock()
	if w.cfg.rLull > 0 && m.kind == "ph" && w.lull == 0 && w.s.Pct("lull-after-proposal", map[bool]int{false: 15, true: 70}[hint]) {
		// a proposed header merges previous-commit votes into the committing view: pause right behind it
		w.lull = 1
		w.s.Probe("lull_started")
		w.s.Logf("lull: inputs pause behind m%d", m.id)
	}
	w.mu.Lock()
	down := nd.down || nd.dead
	ready := nd.ready
	ndctx := nd.ctx
	ident := nd.ident()
	w.mu.Unlock()
	if down {
		w.s.Probe("message_to_down_node_lost")
		if w.cfg.netRecover {
			w.mu.Lock()
			if w.lost == nil {
				w.lost = map[int][]*vzMsg{}
			}
			if len(w.lost[m.to]) < 800 {
				w.lost[m.to] = append(w.lost[m.to], m)
			}
			w.mu.Unlock()
		}
		return
	}
	go func() {
		<-ready
		if ndctx.Err() != nil {
			return
		}
		w.mu.Lock()
		e := nd.e
		w.mu.Unlock()
		if e == nil {
			return
		}
		ctx, cancelHandler := context.WithCancel(vsimcore.WithIdent(ndctx, fmt.Sprintf("%s.m%d", ident, m.id)))
		w.mu.Lock()
		w.handlerCancel[m.id] = cancelHandler
		w.mu.Unlock()
		defer func() {
			w.mu.Lock()
			delete(w.handlerCancel, m.id)
			delete(w.handlerLast, m.id)
			w.mu.Unlock()
			cancelHandler()
		}()
		var cm tmcodec.ConsensusMessage
		if err := w.codec.UnmarshalConsensusMessage(m.data, &cm); err != nil {
			w.s.Logf("m%d undecodable at n%d", m.id, m.to)
			w.s.Probe("undecodable_frame_dropped")
			return
		}
		w.orc.onDecoded(nd, m, cm)
		var res fmt.Stringer
		var h tmconsensus.ConsensusHandler
		if w.cfg.dropDupMapper {
			h = tmconsensus.DropDuplicateFeedbackMapper{Handler: vzObservedHandler{w, nd, m, e}}
		} else {
			h = tmconsensus.AcceptAllValidFeedbackMapper{Handler: vzObservedHandler{w, nd, m, e}}
		}
		switch {
		case cm.ProposedHeader != nil:
			res = fb(h.HandleProposedHeader(ctx, *cm.ProposedHeader))
		case cm.PrevoteProof != nil:
			res = fb(h.HandlePrevoteProofs(ctx, *cm.PrevoteProof))
		case cm.PrecommitProof != nil:
			res = fb(h.HandlePrecommitProofs(ctx, *cm.PrecommitProof))
		default:
			return
		}
		_ = res
	}()
}

type fbS string

func (f fbS) String() string { return string(f) }
func fb(v any) fmt.Stringer  { return fbS(fmt.Sprint(v)) }

// vzObservedHandler records the engine's fine-grained result for every delivered message.
type vzObservedHandler struct {
	w  *vzWorld
	nd *vzNode
	m  *vzMsg
	e  *Engine
}

func (o vzObservedHandler) HandleProposedHeader(ctx context.Context, ph tmconsensus.ProposedHeader) tmconsensus.HandleProposedHeaderResult {
	r := o.e.HandleProposedHeader(ctx, ph)
	if ctx.Err() == nil {
		o.w.s.Logf("m%d %d->%d ph %d/%d %x sig %x => %s", o.m.id, o.m.from, o.m.to, ph.Header.Height, ph.Round, trunc(string(ph.Header.Hash)), trunc(string(ph.Signature)), r)
		o.w.orc.onHandled(o.nd, o.m, "ph", r.String())
		if r == tmconsensus.HandleProposedHeaderAccepted {
			o.w.mu.Lock()
			if o.w.phAccepted == nil {
				o.w.phAccepted = map[uint64]int{}
			}
			o.w.phAccepted[ph.Header.Height]++
			o.w.mu.Unlock()
		}
	}
	return r
}
func (o vzObservedHandler) HandlePrevoteProofs(ctx context.Context, p tmconsensus.PrevoteSparseProof) tmconsensus.HandleVoteProofsResult {
	r := o.e.HandlePrevoteProofs(ctx, p)
	if ctx.Err() == nil {
		o.w.s.Logf("m%d %d->%d prevotes %d/%d => %s", o.m.id, o.m.from, o.m.to, p.Height, p.Round, r)
		o.w.orc.onHandled(o.nd, o.m, "prevote", r.String())
	}
	return r
}
func (o vzObservedHandler) HandlePrecommitProofs(ctx context.Context, p tmconsensus.PrecommitSparseProof) tmconsensus.HandleVoteProofsResult {
	r := o.e.HandlePrecommitProofs(ctx, p)
	if ctx.Err() == nil {
		o.w.s.Logf("m%d %d->%d precommits %d/%d => %s", o.m.id, o.m.from, o.m.to, p.Height, p.Round, r)
		o.w.orc.onHandled(o.nd, o.m, "precommit", r.String())
	}
	return r
}

// ---------------------------------------------------------------- the scheduler loop

func (w *vzWorld) linkBlocked(from, to int) bool { return w.blocked[[2]int{from, to}] }

func (w *vzWorld) liveTimers() []*vzTimer {
	var live []*vzTimer
	for _, t := range w.timers {
		if !t.cancelled && !t.fired {
			live = append(live, t)
		}
	}
	return live
}

// run drives the world until done() or nothing is left to do. extra() may contribute actions.
func (w *vzWorld) run(done func() bool, extra func() []vsimcore.Action) (stalled bool) {
	s := w.s
	w.endReason = "limit"
	for s.Steps < w.cfg.maxSteps && !s.Failed() && !s.Expired() {
		vsimcore.Wait()
		w.orc.afterStep()
		if pw := w.cfg.progressWindow; (pw == 0 && s.Steps-w.progressAt > w.cfg.maxSteps/4) || (pw > 0 && s.Steps-w.progressAt > pw) {
			s.Probe("no_progress_cutoff")
			w.endReason = "cutoff"
			return true
		}
		if s.Failed() || done() {
			w.endReason = "done"
			return false
		}
		if w.pendingCrash {
			w.pendingCrash = false
			w.crash(w.nodes[w.crashNode])
			continue
		}
		w.mu.Lock()
		for k := range w.stalled {
			w.stalled[k]--
			if w.stalled[k] <= 0 {
				delete(w.stalled, k)
			}
		}
		stalledNodes := map[string]bool{}
		for k := range w.stalled {
			stalledNodes[fmt.Sprintf("n%d.", k)] = true
		}
		w.mu.Unlock()
		if w.lull == 0 && w.cfg.rLull > 0 && s.Steps%16 == 0 && s.Pct("lull", w.cfg.rLull) {
			w.lull = 1
			s.Probe("lull_started")
			s.Logf("lull: inputs pause")
		}
		if w.lull > 0 {
			stalledNodes = nil // a lull waits for every node, slow ones included
		}
		acts := s.ParkActions(func(name string) int {
			for p := range stalledNodes {
				if strings.HasPrefix(name, p) {
					return 0
				}
			}
			return 3
		})
		if w.lull > 0 {
			// Inputs have stopped: no delivery, no adversary action, no restart, no fault, no timer.
			// Only what is already inside the nodes runs on, in seeded order, until nothing is left.
			if len(acts) > 0 {
				s.Pick(acts)
				continue
			}
			if w.lull == 1 {
				w.lull = 2
				w.requestLullSnaps()
				continue
			}
			w.judgeLull()
			w.lull = 0
			s.Logf("lull: inputs resume")
			continue
		}
		w.mu.Lock()
		if vzDebugInflight {
			var ids []string
			for _, m := range w.inflight {
				ids = append(ids, fmt.Sprint(m.id))
			}
			s.Logf("      inflight: %s", strings.Join(ids, ","))
		}
		held := 0
		if w.starveLeft > 0 {
			w.starveLeft--
		}
		for i, m := range w.inflight {
			if w.linkBlocked(m.from, m.to) || w.stalled[m.to] > 0 {
				continue
			}
			if w.starveLeft > 0 && m.to == w.starveNode && m.kind == w.starveKind && (w.starveData == "" || w.starveData == m.key) {
				held++
				continue
			}
			i, m := i, m
			acts = append(acts, vsimcore.Action{Name: fmt.Sprintf("deliver m%d %d->%d %s", m.id, m.from, m.to, m.kind), Weight: 2, Do: func() {
				w.mu.Lock()
				w.inflight = append(w.inflight[:i], w.inflight[i+1:]...)
				w.mu.Unlock()
				w.deliver(m)
			}})
		}
		live := w.liveTimers()
		w.mu.Unlock()
		if extra != nil {
			acts = append(acts, extra()...)
		}
		// restart of crashed nodes
		for _, nd := range w.nodes {
			nd := nd
			w.mu.Lock()
			down := nd.down && nd.inc > 0
			w.mu.Unlock()
			if down {
				acts = append(acts, vsimcore.Action{Name: fmt.Sprintf("restart n%d", nd.idx), Weight: 2, Do: func() { w.start(nd) }})
			}
		}
		if w.cfg.netRecover {
			acts = append(acts, w.recoveryActions()...)
		}
		fireEarly := w.maybeFault(live, len(acts))
		if len(acts) == 0 || fireEarly {
			// timers fire when nothing else is enabled (virtual time jumps to the deadline),
			// and occasionally early (clock skew: Tendermint safety does not depend on timing)
			if len(live) > 0 {
				early := len(acts) > 0
				t := live[s.Choose("timer", len(live))]
				w.mu.Lock()
				t.fired = true
				w.mu.Unlock()
				if early {
					s.Fault("timer_fired_early")
				} else {
					s.Probe("timer_fired")
				}
				s.Steps++
				s.Logf("fire %s early=%t", t.name, early)
				time.Sleep(time.Second) // virtual time passes
				close(t.ch)
				continue
			}
		}
		if len(acts) == 0 && held > 0 {
			w.mu.Lock()
			w.starveLeft = 0 // nothing else can run: the delayed frames arrive
			w.mu.Unlock()
			continue
		}
		if len(acts) == 0 {
			if w.cfg.netRecover && w.recoveries < 6 && w.healAll() {
				continue
			}
			w.endReason = "quiescent"
			return true
		}
		s.Pick(acts)
	}
	return false
}

// maybeFault draws at most one fault per scheduler step (one entry of the choice log; 0 = none).
func (w *vzWorld) maybeFault(live []*vzTimer, nActs int) (fireTimerEarly bool) {
	s := w.s
	cfg := w.cfg
	rates := []int{cfg.rDup, cfg.rCorrupt, cfg.rPartition, cfg.rStall, cfg.rCrash, cfg.rEarlyTimer, cfg.rCancel, cfg.rStarve}
	sum := 0
	for _, r := range rates {
		sum += r
	}
	if sum == 0 {
		return false
	}
	if sum > 900 {
		sum = 900
	}
	k := s.ChooseW("fault", append([]int{1000 - sum}, rates...))
	if k == 0 {
		return false
	}
	w.mu.Lock()
	defer w.mu.Unlock()
	w.lastFaultStep = s.Steps
	switch k {
	case 1: // duplicate / replay an earlier frame
		if len(w.sentLog) == 0 || len(w.inflight) > 400 {
			return false
		}
		m := w.sentLog[s.Choose("dup-which", len(w.sentLog))]
		to := m.to
		if cfg.rReplay > 0 && s.Pct("replay-elsewhere", 30) {
			to = s.Choose("replay-to", len(w.nodes))
		}
		w.nextMsg++
		w.inflight = append(w.inflight, &vzMsg{id: w.nextMsg, from: m.from, to: to, kind: m.kind, data: m.data, key: m.key})
		s.Fault("duplicate_or_replay")
		s.Logf("fault: duplicate m%d as m%d to n%d", m.id, w.nextMsg, to)
	case 2: // corrupt a frame in flight
		if len(w.inflight) == 0 {
			return false
		}
		m := w.inflight[s.Choose("corrupt-which", len(w.inflight))]
		d := append([]byte(nil), m.data...)
		d[s.Choose("corrupt-pos", len(d))] ^= 1 << uint(s.Choose("corrupt-bit", 8))
		m.data = d
		s.Fault("corrupt_frame")
		s.Logf("fault: corrupt m%d", m.id)
	case 3: // partitions and heals
		if len(w.blocked) > 0 && s.Pct("heal", 60) {
			w.blocked = map[[2]int]bool{}
			s.Fault("heal")
			s.Logf("fault: heal all partitions")
		} else {
			side := make([]bool, len(w.nodes))
			for i := range w.nodes {
				side[i] = s.Pct("side", 50)
			}
			for i := range w.nodes {
				for j := range w.nodes {
					if i != j && side[i] != side[j] {
						w.blocked[[2]int{i, j}] = true
					}
				}
			}
			s.Fault("partition")
			s.Logf("fault: partition %v", side)
		}
	case 7: // the context of a handler in flight ends (the caller's deadline): the engine must keep serving
		if len(w.handlerCancel) == 0 {
			return false
		}
		ids := make([]int, 0, len(w.handlerCancel))
		for id := range w.handlerCancel {
			ids = append(ids, id)
		}
		sort.Ints(ids)
		// prefer handlers that have a request with the kernel right now (the interesting instants are
		// between handing a request over and reading its answer)
		wts := make([]int, len(ids))
		for i, id := range ids {
			wts[i] = 1
			if l := w.handlerLast[id]; strings.Contains(l, "Future") || strings.Contains(l, "Add") {
				wts[i] = 6
			}
		}
		id := ids[s.ChooseW("cancel-which", wts)]
		w.handlerCancel[id]()
		if strings.Contains(w.handlerLast[id], "Future") {
			s.Probe("cancelled_during_future_vote_request")
		}
		if w.adv != nil {
			// the sender's validation failed: peers will offer the same things again
			w.adv.regossips = map[uint64]int{}
			w.adv.resendPending = true
		}
		s.Fault("handler_context_cancelled")
		s.Logf("fault: the context of the handler of m%d is cancelled", id)
	case 4: // a node stalls for a while
		n := s.Choose("stall-node", len(w.nodes))
		w.stalled[n] = 20 + s.Choose("stall-len", 200)
		s.Fault("stall")
		s.Logf("fault: stall n%d for %d steps", n, w.stalled[n])
	case 5: // process crash of a correct node (restart is a later scheduler action)
		var cands []*vzNode
		for _, nd := range w.nodes {
			if !nd.byz && !nd.dead && !nd.down && nd.e != nil {
				cands = append(cands, nd)
			}
		}
		if len(cands) == 0 {
			return false
		}
		nd := cands[s.Choose("crash-node", len(cands))]
		w.mu.Unlock()
		w.crash(nd)
		w.mu.Lock()
	case 6:
		return len(live) > 0
	case 8: // one kind of frame to one node is slow for a long stretch
		if w.starveLeft > 0 {
			return false
		}
		w.starveData = ""
		var phs []*vzMsg
		for _, m := range w.inflight {
			if m.key != "" {
				phs = append(phs, m)
			}
		}
		if len(phs) > 0 && s.Pct("starve-one-proposal", 60) {
			// one proposed header, with every copy of it that other peers forward, is slow to reach one node
			m := phs[s.Choose("starve-which", len(phs))]
			w.starveNode, w.starveKind, w.starveData = m.to, m.kind, m.key
			w.starveLeft = 300 + s.Choose("starve-len", 2500)
			s.Fault("one_proposal_delayed_to_node")
			s.Logf("fault: m%d (%s) and every copy of it to n%d are delayed for %d steps", m.id, m.kind, m.to, w.starveLeft)
			break
		}
		w.starveNode = s.Choose("starve-node", len(w.nodes))
		w.starveKind = []string{"ph", "ph", "prevote", "precommit"}[s.Choose("starve-kind", 4)]
		w.starveLeft = 300 + s.Choose("starve-len", 1500)
		s.Fault("message_kind_delayed_to_node")
		s.Logf("fault: %s frames to n%d are delayed for %d steps", w.starveKind, w.starveNode, w.starveLeft)
	}
	return false
}

// shutdown stops every node and waits for the goroutines (still inside the bubble).
// finalChecks runs the end-of-run oracles (before the verdict is checkpointed).
type vzLullSnap struct {
	nd   *vzNode
	inc  int
	v, c tmconsensus.VersionedRoundView
	err  error
	done chan struct{}
}

// requestLullSnaps asks every running correct node's mirror for its own voting and committing views.
func (w *vzWorld) requestLullSnaps() {
	w.lullSnaps = nil
	for _, nd := range w.nodes {
		w.mu.Lock()
		e, dead, down, inc := nd.e, nd.dead, nd.down, nd.inc
		w.mu.Unlock()
		if nd.byz || e == nil || dead || down || e.m == nil {
			continue
		}
		sn := &vzLullSnap{nd: nd, inc: inc, done: make(chan struct{})}
		w.lullSnaps = append(w.lullSnaps, sn)
		ctx, m := nd.ctx, e.m
		go func() {
			defer close(sn.done)
			if sn.err = m.VotingView(ctx, &sn.v); sn.err == nil {
				sn.err = m.CommittingView(ctx, &sn.c)
			}
		}()
	}
}

// judgeLull: nothing is parked any more, so every consumer has been handed whatever was pending.
func (w *vzWorld) judgeLull() {
	for _, sn := range w.lullSnaps {
		select {
		case <-sn.done:
		default:
			w.s.Probe("lull_snapshot_unanswered")
			continue
		}
		w.mu.Lock()
		same := sn.nd.inc == sn.inc && !sn.nd.down && !sn.nd.dead
		w.mu.Unlock()
		if sn.err != nil || !same {
			continue
		}
		w.s.Probe("lull_judged")
		w.orc.checkConsumersCurrent(sn.nd, &sn.v, &sn.c)
	}
	w.lullSnaps = nil
}

func (w *vzWorld) finalChecks() {
	if (w.endReason == "done" || w.endReason == "quiescent") && !w.s.Failed() && !w.s.Expired() {
		// let whatever is still inside the nodes finish (a commit may be between two store writes)
		for i := 0; i < 40000; i++ {
			vsimcore.Wait()
			ps := w.s.Parked()
			if len(ps) == 0 {
				break
			}
			w.s.Release(ps[0])
		}
		vsimcore.Wait()
	}
	for _, nd := range w.nodes {
		if !nd.byz {
			w.orc.checkStoredHeadersIntact(nd)
			if w.endReason == "done" || w.endReason == "quiescent" {
				w.orc.checkRejectedReplaysLeftNoTrace(nd) // every replay has been answered by now
				w.mu.Lock()
				up := nd.e != nil && !nd.dead && !nd.down
				w.mu.Unlock()
				if up {
					w.orc.checkPositionInStep(nd)
				}
			}
		}
	}
	if !(w.cfg.oracles["C11"] || w.cfg.oracles["C09"]) || w.s.Failed() || w.s.Expired() {
		return
	}
	current := w.cfg.oracles["C11"] && (w.endReason == "done" || w.endReason == "quiescent")
	// inputs have stopped: ask each kernel for its own views and compare with what gossip last received
	for _, nd := range w.nodes {
		w.mu.Lock()
		e, dead, down := nd.e, nd.dead, nd.down
		w.mu.Unlock()
		if nd.byz || e == nil || dead || down || e.m == nil {
			continue
		}
		type snap struct {
			v, c tmconsensus.VersionedRoundView
			err  error
		}
		done := make(chan snap, 1)
		ctx := nd.ctx
		go func() {
			var sn snap
			if sn.err = e.m.VotingView(ctx, &sn.v); sn.err == nil {
				sn.err = e.m.CommittingView(ctx, &sn.c)
			}
			done <- sn
		}()
		var sn snap
		got := false
		// one park at a time, in name order: what runs between two quiescent points is one goroutine's
		// step, so the event log of this phase is as repeatable as the rest of the run
		for i := 0; i < 40000 && !got; i++ {
			vsimcore.Wait()
			select {
			case sn = <-done:
				got = true
			default:
				ps := w.s.Parked()
				if len(ps) == 0 {
					i = 40000
					break
				}
				w.s.Release(ps[0])
			}
		}
		if !got {
			vsimcore.Wait()
			select {
			case sn = <-done:
				got = true
			default:
			}
		}
		vsimcore.Wait()
		if !got && ctx.Err() == nil {
			// C09: the mirror kernel of a running engine answers a snapshot request once everything
			// that was parked has been let through; if it does not, it is blocked for good
			w.orc.violate("C09", "mirror-kernel-unresponsive", "%s: the mirror kernel does not answer a view snapshot request although the engine is running and nothing is held back (it is blocked forever somewhere)", nd.ident())
			continue
		}
		if current && got && sn.err == nil {
			// everything that was parked has run: the consumers have been served whatever was pending
			drained := false
			for i := 0; i < 40000; i++ {
				vsimcore.Wait()
				ps := w.s.Parked()
				if len(ps) == 0 {
					drained = true
					break
				}
				w.s.Release(ps[0])
			}
			vsimcore.Wait()
			if drained {
				w.orc.checkConsumersCurrent(nd, &sn.v, &sn.c)
			} else {
				w.s.Probe("final_drain_incomplete")
			}
		}
	}
}

func (w *vzWorld) shutdown() {
	// first let everything parked run to quiescence, then cancel (see the state machine harness)
	w.s.Stop()
	vsimcore.Wait()
	w.rootCancel()
	for _, nd := range w.nodes {
		if nd.ready != nil {
			<-nd.ready
		}
		w.mu.Lock()
		e, gs, wd, down := nd.e, nd.gs, nd.wd, nd.down
		w.mu.Unlock()
		if down {
			continue
		}
		if e != nil {
			e.Wait()
		}
		if gs != nil {
			gs.Wait()
		}
		if wd != nil {
			wd.Wait()
		}
	}
	time.Sleep(time.Second)
}
