//go:build verif

package tmengine

// H-NODE: one real engine (validator 0 or an observer) in the simulated world, with an
// omnipotent environment that holds every validator key: it drives honest rounds through the
// wire, and injects late / duplicate / conflicting certificates, forged and malformed messages,
// re-filed signatures, tampered proposals and replayed headers, concurrently with honest traffic.

import (
	"bytes"
	"context"
	"fmt"
	"sort"
	"strings"

	"github.com/gordian-engine/gordian/gcrypto"
	"github.com/gordian-engine/gordian/internal/vsimcore"
	"github.com/gordian-engine/gordian/tm/tmcodec"
	"github.com/gordian-engine/gordian/tm/tmconsensus"
	"github.com/gordian-engine/gordian/tm/tmengine/tmelink"
)

func init() { vzHarnesses["node"] = runNode }

type vzAdv struct {
	w  *vzWorld
	nd *vzNode

	h       uint64 // the chain's next height (what the puppets vote on)
	r       uint32
	phs     []tmconsensus.ProposedHeader
	voted   [2]map[string]map[int]bool // prevote / precommit: hash -> puppets that have voted (sent)
	chain   map[uint64]tmconsensus.CommittedHeader
	valsets map[uint64]tmconsensus.ValidatorSet
	foreign []int // indices into foreignVals

	foreignVals tmconsensus.ValidatorSet
	foreignKeys []gcrypto.Signer

	expect        map[int]string // message id -> "C05:all-invalid" etc.
	rotate        bool
	nInject       int
	replayCh      chan tmelink.ReplayedHeaderRequest
	notes         []string
	regossips     map[uint64]int
	said          map[uint64]map[string]tmcodec.ConsensusMessage
	advSigning    bool         // set while an adversarial injection is being built
	byzUsed       map[int]bool // validators whose keys have signed outside the honest script
	signedFor     map[string]map[int]map[string]bool
	byzDust       bool // validators 3.. are Byzantine dust (power profile 4)
	lastInc       int
	resendPending bool
	crashEnum     bool
	doubleQuorum  bool
	budget        int                                   // adversarial injections in this run
	lead          uint64                                // how many heights the puppets may run ahead of the node's finalizations
	chainPH       map[uint64]tmconsensus.ProposedHeader // the proposal that was committed, per height
	genuineReplay bool                                  // injectReplay sends the genuine header of the node's voting height
	withheld      []vzWithheld                          // dissenting precommits of decided rounds, sent behind the next proposal
	abst          [2]map[int]bool                       // puppets that stay silent in this round (split rounds)
	plan          int                                   // the puppets' outcome for this round: 0 undecided, 1 commit the first proposal, 2 nil quorum, 3 split (no quorum)
}

func (a *vzAdv) vs(h uint64) tmconsensus.ValidatorSet {
	if v, ok := a.valsets[h]; ok {
		return v
	}
	return a.w.fx.ValSet()
}

// nextVals is the application's policy, shared with the real node's driver.
func (a *vzAdv) policy(h uint64) tmconsensus.ValidatorSet {
	vs, err := tmconsensus.NewValidatorSet(a.w.nextValidators(h), a.w.fx.HashScheme)
	if err != nil {
		panic(err)
	}
	return vs
}

func (a *vzAdv) power(h uint64, set map[int]bool) (p, total uint64) {
	vs := a.vs(h)
	for i, v := range vs.Validators {
		total += v.Power
		// validator order may rotate: map by key
		for j := range set {
			if v.PubKey.Equal(a.w.fx.PrivVals[j].Val.PubKey) {
				p += vs.Validators[i].Power
			}
		}
	}
	return
}

// keyID is the index of fixture validator j in the validator set of height h.
func (a *vzAdv) keyID(h uint64, j int) int {
	for i, v := range a.vs(h).Validators {
		if v.PubKey.Equal(a.w.fx.PrivVals[j].Val.PubKey) {
			return i
		}
	}
	return -1
}

// cast books a valid vote by validator j that is put on the wire as such: who has signed which targets
// in (kind, h, r). Validators with two targets in one round are equivocators.
func (a *vzAdv) cast(kind int, h uint64, r uint32, hash string, j int) {
	k := fmt.Sprintf("%d/%d/%d", kind, h, r)
	if a.signedFor[k] == nil {
		a.signedFor[k] = map[int]map[string]bool{}
	}
	if a.signedFor[k][j] == nil {
		a.signedFor[k][j] = map[string]bool{}
	}
	a.signedFor[k][j][hash] = true
	if a.advSigning {
		a.markByz(h, j)
	}
	if !a.w.beyondModel && h >= a.nodeNext() {
		eq := map[int]bool{}
		for v, t := range a.signedFor[k] {
			if len(t) > 1 {
				eq[v] = true
			}
		}
		if p, total := a.power(h, eq); p > 0 && 3*p >= total {
			a.w.beyondModel = true
			a.w.s.Logf("adv: validators %v (>= 1/3 of the power) have now signed two targets in %s: beyond the fault model", eq, k)
		}
	}
}

func (a *vzAdv) signVote(kind int, h uint64, r uint32, hash string, j int) []byte {
	vt := tmconsensus.VoteTarget{Height: h, Round: r, BlockHash: hash}
	var sb []byte
	if kind == 0 {
		sb, _ = tmconsensus.PrevoteSignBytes(vt, a.w.fx.SignatureScheme)
	} else {
		sb, _ = tmconsensus.PrecommitSignBytes(vt, a.w.fx.SignatureScheme)
	}
	return a.w.sign(j, sb)
}

// markByz: a validator whose key produced a valid vote outside the honest script is Byzantine; once such
// validators hold a third of the power the run is outside the fault model (for instance they can pull
// the node into a later round that honest validators never reach).
func (a *vzAdv) markByz(h uint64, j int) {
	if a.w.beyondModel || h < a.nodeNext() {
		return // votes for heights the node has finalized cannot move it any more
	}
	if a.byzUsed == nil {
		a.byzUsed = map[int]bool{}
	}
	a.byzUsed[j] = true
	if p, total := a.power(h, a.byzUsed); p > 0 && 3*p >= total {
		a.w.beyondModel = true
		a.w.s.Logf("adv: validators %v (>= 1/3 of the power) have cast valid votes outside the honest script: beyond the fault model", a.byzUsed)
	}
}

func (a *vzAdv) voteMsg(kind int, h uint64, r uint32, pkh string, proofs map[string][]gcrypto.SparseSignature) (tmcodec.ConsensusMessage, string) {
	if kind == 0 {
		return tmcodec.ConsensusMessage{PrevoteProof: &tmconsensus.PrevoteSparseProof{Height: h, Round: r, PubKeyHash: pkh, Proofs: proofs}}, "prevote"
	}
	return tmcodec.ConsensusMessage{PrecommitProof: &tmconsensus.PrecommitSparseProof{Height: h, Round: r, PubKeyHash: pkh, Proofs: proofs}}, "precommit"
}

func (a *vzAdv) send(cm tmcodec.ConsensusMessage, kind, expect, note string) {
	w := a.w
	w.inject(-1, []int{a.nd.idx}, cm, kind)
	w.mu.Lock()
	id := w.nextMsg
	a.expect[id] = expect
	w.mu.Unlock()
	w.s.Logf("adv m%d %s: %s", id, kind, note)
	if len(a.notes) < 60 {
		a.notes = append(a.notes, fmt.Sprintf("m%d %s: %s", id, kind, note))
	}
}

type vzWithheld struct {
	h          uint64
	cm         tmcodec.ConsensusMessage
	kind, note string
}

// ---- honest progress

func (a *vzAdv) propose() {
	w := a.w
	s := w.s
	prop := 1 + s.Choose("adv-proposer", w.cfg.nVal-1)
	ph := w.fx.NextProposedHeader([]byte(fmt.Sprintf("data-%d-%d-%d", a.h, a.r, prop)), prop)
	ph.Round = a.r
	ph.Header.Height = a.h // the fixture counts from 1; the chain may start higher
	if a.h == w.cfg.initialHeight {
		ph.Header.PrevAppStateHash = []byte("app-genesis") // what the application answered to InitChain
	}
	ph.Header.ValidatorSet = a.vs(a.h)
	ph.Header.NextValidatorSet = a.vs(a.h + 1)
	w.fx.RecalculateHash(&ph.Header)
	w.fx.SignProposal(context.Background(), &ph, prop)
	a.phs = append(a.phs, ph)
	w.orc.mu.Lock()
	if w.orc.honestPH == nil {
		w.orc.honestPH = map[string]bool{}
	}
	w.orc.honestPH[string(ph.Header.Hash)] = true
	w.orc.mu.Unlock()
	a.remember(a.h, a.r, 0, string(ph.Header.Hash), tmcodec.ConsensusMessage{ProposedHeader: &ph})
	a.send(tmcodec.ConsensusMessage{ProposedHeader: &ph}, "ph", "valid", fmt.Sprintf("honest proposal %d/%d by %d hash %x", a.h, a.r, prop, trunc(string(ph.Header.Hash))))
	for _, wh := range a.withheld {
		if wh.h+1 == a.h {
			// its previous-commit proof holds a precommit the node has not seen: a good place for a lull
			w.mu.Lock()
			w.lullBehind[w.nextMsg] = true
			w.mu.Unlock()
		}
	}
}

// releaseWithheld sends the held-back dissenting precommits of a decided height once the node has
// accepted a proposal of the next height (whose previous-commit proof contains them).
func (a *vzAdv) releaseWithheld() {
	var keep []vzWithheld
	for _, wh := range a.withheld {
		a.w.mu.Lock()
		ok := a.w.phAccepted[wh.h+1] > 0
		a.w.mu.Unlock()
		if !ok {
			keep = append(keep, wh)
			continue
		}
		a.send(wh.cm, wh.kind, "valid", wh.note)
	}
	a.withheld = keep
}

// cands lists the puppets that are validators at the chain's height and have not cast a vote of that kind in this round.
func (a *vzAdv) cands(kind int) []int {
	var cands []int
	for j := 1; j < a.w.cfg.nVal; j++ {
		done := a.abst[kind][j]
		for _, set := range a.voted[kind] {
			if set[j] {
				done = true
			}
		}
		if !done && a.keyID(a.h, j) >= 0 {
			cands = append(cands, j)
		}
	}
	return cands
}

// canVote reports whether the puppets have an honest vote left to send in this round.
func (a *vzAdv) canVote() bool {
	if a.plan == 1 && len(a.phs) == 0 {
		return false
	}
	return len(a.cands(0))+len(a.cands(1)) > 0
}

// nextPuppetRound is what honest validators do when a round ends without a decision (precommit timeout).
func (a *vzAdv) nextPuppetRound() {
	a.w.s.Logf("adv: round %d/%d ends without a quorum, puppets move on", a.h, a.r)
	a.r++
	a.phs = nil
	a.plan = 0
	a.voted, a.abst = [2]map[string]map[int]bool{{}, {}}, [2]map[int]bool{}
}

func (a *vzAdv) honestVote() bool {
	w := a.w
	s := w.s
	if a.plan == 0 {
		a.plan = 1 + s.ChooseW("adv-plan", []int{8, 1, 1})
	}
	if a.plan == 1 && len(a.phs) == 0 {
		return false
	}
	a.absorbNodePrecommit()
	kind := s.Choose("adv-votekind", 2)
	cands := a.cands(kind)
	if len(cands) == 0 {
		kind = 1 - kind
		cands = a.cands(kind)
	}
	if len(cands) == 0 {
		a.nextPuppetRound()
		return false
	}
	j := cands[s.Choose("adv-voter", len(cands))]
	targets := []string{""}
	for _, ph := range a.phs {
		targets = append(targets, string(ph.Header.Hash))
	}
	if kind == 1 {
		// Honest validators respect their locks: they precommit a block only when it has a prevote
		// quorum, and two blocks cannot have one in the same round. So the puppets precommit either the
		// planned block of a commit round or nil - never another block, and no block at all in rounds
		// that are planned to fail (a block precommitted there would, together with the node's own vote,
		// be a commit the puppets then walk away from).
		targets = []string{""}
		if a.plan == 1 {
			targets = append(targets, string(a.phs[0].Header.Hash))
		}
	}
	// the round's plan decides where the quorum goes; a dissenting vote is allowed
	// only while the remaining puppets can still complete the planned quorum
	want := ""
	if a.plan == 1 {
		want = targets[1]
	}
	hash := want
	if a.plan == 3 || s.Pct("adv-dissent", []int{15, 35}[kind]) {
		alt := targets[s.Choose("adv-target", len(targets))]
		if a.plan == 3 {
			hash = alt
		} else if alt != want {
			rest := map[int]bool{}
			for _, c := range cands {
				if c != j {
					rest[c] = true
				}
			}
			for v := range a.voted[kind][want] {
				rest[v] = true
			}
			if p, total := a.power(a.h, rest); 3*p > 2*total {
				hash = alt
			}
		}
	}
	if a.plan == 3 {
		// never let a split round reach a quorum by accident
		with := map[int]bool{j: true}
		for v := range a.voted[kind][hash] {
			with[v] = true
		}
		if p, total := a.power(a.h, with); 3*p > 2*total {
			for _, t := range targets {
				if t != hash {
					hash = t
					break
				}
			}
			if len(targets) == 1 {
				if a.abst[kind] == nil {
					a.abst[kind] = map[int]bool{}
				}
				a.abst[kind][j] = true
				return false
			}
		}
	}
	if a.byzDust && j >= 3 && a.plan == 1 && len(a.phs) > 1 {
		// Byzantine dust: votes for the other proposal, against every rule, with no power to matter
		hash = string(a.phs[1].Header.Hash)
		a.markByz(a.h, j)
	}
	if a.voted[kind][hash] == nil {
		a.voted[kind][hash] = map[int]bool{}
	}
	a.voted[kind][hash][j] = true
	// the message carries everything the puppets have for that target (as a gossiping peer would)
	var sigs []gcrypto.SparseSignature
	var who []int
	for v := range a.voted[kind][hash] {
		who = append(who, v)
	}
	sort.Ints(who)
	for _, v := range who {
		a.cast(kind, a.h, a.r, hash, v)
		sigs = append(sigs, gcrypto.SparseSignature{KeyID: vzKeyID(a.keyID(a.h, v)), Sig: a.signVote(kind, a.h, a.r, hash, v)})
	}
	proofs := map[string][]gcrypto.SparseSignature{hash: sigs}
	if s.Pct("adv-all-targets", 30) {
		// as a gossiping peer would: everything known for this kind and round, all targets in one message
		for other, set := range a.voted[kind] {
			if other == hash {
				continue
			}
			var vs []int
			for v := range set {
				vs = append(vs, v)
			}
			sort.Ints(vs)
			for _, v := range vs {
				proofs[other] = append(proofs[other], gcrypto.SparseSignature{KeyID: vzKeyID(a.keyID(a.h, v)), Sig: a.signVote(kind, a.h, a.r, other, v)})
			}
		}
	}
	cm, k := a.voteMsg(kind, a.h, a.r, string(a.vs(a.h).PubKeyHash), proofs)
	if kind == 1 && a.plan == 1 && hash != want && len(proofs) == 1 && s.Pct("adv-withhold-dissent", 60) {
		// A dissenting precommit of a round that commits travels slowly: the node first learns of it from
		// the previous-commit proof of the next height's proposal, and only later receives the vote itself.
		s.Probe("dissenting_precommit_held_back")
		a.withheld = append(a.withheld, vzWithheld{h: a.h, cm: cm, kind: k, note: fmt.Sprintf("honest %s %d/%d for %x by %v (held back until the next proposal)", k, a.h, a.r, trunc(hash), who)})
		a.maybeAdvance()
		return true
	}
	a.remember(a.h, a.r, 1+kind, hash, cm)
	a.send(cm, k, "valid", fmt.Sprintf("honest %s %d/%d for %x by %v", k, a.h, a.r, trunc(hash), who))
	a.maybeAdvance()
	return true
}

// absorbNodePrecommit: a precommit the node itself has signed in the puppets' round counts towards the
// round's outcome like any other validator's (the puppets have received it), so a puppet may dissent
// or stay behind while the node and the others decide.
func (a *vzAdv) absorbNodePrecommit() {
	w := a.w
	if a.crashEnum || a.keyID(a.h, 0) < 0 {
		return
	}
	targets := []string{""}
	for _, ph := range a.phs {
		targets = append(targets, string(ph.Header.Hash))
	}
	for _, hash := range targets {
		sb, err := tmconsensus.PrecommitSignBytes(tmconsensus.VoteTarget{Height: a.h, Round: a.r, BlockHash: hash}, w.fx.SignatureScheme)
		if err != nil {
			continue
		}
		w.mu.Lock()
		signed := a.nd.signed[fmt.Sprintf("precommit/%d/%d", a.h, a.r)][string(sb)]
		w.mu.Unlock()
		if signed && !a.voted[1][hash][0] {
			if a.voted[1][hash] == nil {
				a.voted[1][hash] = map[int]bool{}
			}
			a.voted[1][hash][0] = true
			a.cast(1, a.h, a.r, hash, 0)
			w.s.Probe("node_precommit_counted")
			w.s.Logf("adv: the node's own precommit %d/%d for %x counts", a.h, a.r, trunc(hash))
		}
	}
}

// maybeAdvance moves the puppets' chain on once they have sent a quorum of precommits.
func (a *vzAdv) maybeAdvance() {
	w := a.w
	a.absorbNodePrecommit()
	for hash, set := range a.voted[1] {
		p, total := a.power(a.h, set)
		if 3*p <= 2*total {
			continue
		}
		if hash == "" {
			w.s.Logf("adv: round %d/%d ends with a nil precommit quorum", a.h, a.r)
			a.r++
			a.phs = nil
			a.plan = 0
			a.voted, a.abst = [2]map[string]map[int]bool{{}, {}}, [2]map[int]bool{}
			return
		}
		var hdr *tmconsensus.Header
		for i := range a.phs {
			if string(a.phs[i].Header.Hash) == hash {
				hdr = &a.phs[i].Header
			}
		}
		if hdr == nil {
			continue
		}
		// commit in the puppets' chain and in the fixture
		pm := map[string][]int{}
		for hsh, st := range a.voted[1] {
			for j := range st {
				pm[hsh] = append(pm[hsh], a.keyID(a.h, j))
			}
			sort.Ints(pm[hsh])
		}
		proofs := map[string]gcrypto.CommonMessageSignatureProof{}
		cp := tmconsensus.CommitProof{Round: a.r, PubKeyHash: string(a.vs(a.h).PubKeyHash), Proofs: map[string][]gcrypto.SparseSignature{}}
		for hsh, st := range a.voted[1] {
			sb, _ := tmconsensus.PrecommitSignBytes(tmconsensus.VoteTarget{Height: a.h, Round: a.r, BlockHash: hsh}, w.fx.SignatureScheme)
			pr, err := gcrypto.NewSimpleCommonMessageSignatureProof(sb, a.vs(a.h).PubKeys, string(a.vs(a.h).PubKeyHash))
			if err != nil {
				panic(err)
			}
			var js []int
			for j := range st {
				js = append(js, j)
			}
			sort.Ints(js)
			for _, j := range js {
				if err := pr.AddSignature(a.signVote(1, a.h, a.r, hsh, j), w.fx.PrivVals[j].Val.PubKey); err != nil {
					panic(err)
				}
			}
			proofs[hsh] = pr
			cp.Proofs[hsh] = pr.AsSparse().Signatures
		}
		a.chain[a.h] = tmconsensus.CommittedHeader{Header: *hdr, Proof: cp}
		for i := range a.phs {
			if string(a.phs[i].Header.Hash) == hash {
				a.chainPH[a.h] = a.phs[i]
			}
		}
		w.fx.CommitBlock(*hdr, []byte(fmt.Sprintf("app-%d-%x", a.h, hdr.DataID)), a.r, proofs)
		w.s.Logf("adv: chain commits height %d hash %x in round %d", a.h, trunc(hash), a.r)
		w.orc.mu.Lock()
		w.orc.prescribed[a.h+1] = a.vs(a.h + 1)
		w.orc.advChain[a.h] = hash
		w.orc.mu.Unlock()
		a.h++
		a.r = 0
		a.phs = nil
		a.plan = 0
		a.voted, a.abst = [2]map[string]map[int]bool{{}, {}}, [2]map[int]bool{}
		// validator sets two heights ahead follow the application's policy
		a.valsets[a.h+1] = a.policy(a.h - 1)
		return
	}
}

// ---- adversarial injections

// refHR picks a height/round relative to the node's position.
func (a *vzAdv) refHR() (uint64, uint32) {
	s := a.w.s
	h, r := a.h, a.r
	switch s.ChooseW("adv-where", []int{6, 2, 2, 1, 1, 1, 1}) {
	case 6:
		// below everything the node tracks: any height under the node's committing height, including
		// heights below the initial height and height zero
		h = uint64(s.Choose("lowh", int(h)))
		r = uint32(s.Choose("r", 2))
	case 1:
		r++
	case 2:
		if h > a.w.cfg.initialHeight {
			h--
			r = a.chain[h].Proof.Round
		}
	case 3:
		r += 2 + uint32(s.Choose("far", 3))
	case 4:
		h++
		r = uint32(s.Choose("r", 2))
	case 5:
		h += 2 + uint64(s.Choose("farh", 3))
	}
	return h, r
}

func (a *vzAdv) knownHash(h uint64) string {
	if ch, ok := a.chain[h]; ok {
		return string(ch.Header.Hash)
	}
	if h == a.h && len(a.phs) > 0 {
		return string(a.phs[a.w.s.Choose("adv-ph", len(a.phs))].Header.Hash)
	}
	return "unknown-block-hash-................."
}

func (a *vzAdv) injectBadVote() {
	w := a.w
	s := w.s
	kind := s.Choose("adv-kind", 2)
	h, r := a.refHR()
	pkh := string(a.vs(h).PubKeyHash)
	j := 1 + s.Choose("adv-signer", w.cfg.nVal-1)
	hash := ""
	switch s.Choose("adv-hash", 3) {
	case 1:
		hash = a.knownHash(h)
	case 2:
		hash = "unknown-block-hash-................."
	}
	good := a.signVote(kind, h, r, hash, j)
	kid := vzKeyID(a.keyID(h, j))
	var sigs []gcrypto.SparseSignature
	desc := ""
	expect := "C05:all-invalid"
	switch s.Choose("adv-badvote", 11) {
	case 0:
		bad := append([]byte(nil), good...)
		bad[s.Choose("pos", len(bad))] ^= 1 << uint(s.Choose("bit", 8))
		sigs, desc = []gcrypto.SparseSignature{{KeyID: kid, Sig: bad}}, "bit-flipped signature"
	case 1:
		k2 := (j % (w.cfg.nVal - 1)) + 1
		if k2 == j {
			k2 = 0
		}
		sigs, desc = []gcrypto.SparseSignature{{KeyID: vzKeyID(a.keyID(h, k2)), Sig: good}}, fmt.Sprintf("validator %d's signature filed under validator %d", j, k2)
	case 2:
		sigs, desc = []gcrypto.SparseSignature{{KeyID: kid, Sig: a.signVote(1-kind, h, r, hash, j)}}, "signature of the other vote kind"
	case 3:
		sigs, desc = []gcrypto.SparseSignature{{KeyID: kid, Sig: a.signVote(kind, h, r+1, hash, j)}}, "signature for another round"
	case 4:
		sigs, desc = []gcrypto.SparseSignature{{KeyID: kid, Sig: a.signVote(kind, h, r, hash+"x", j)}}, "signature for another block hash"
	case 5:
		sigs, desc = []gcrypto.SparseSignature{{KeyID: vzKeyID(1000 + s.Choose("oor", 60000)), Sig: good}}, "key id out of range"
	case 6:
		l := []int{0, 1, 3}[s.Choose("kidlen", 3)]
		sigs, desc = []gcrypto.SparseSignature{{KeyID: make([]byte, l), Sig: good}}, fmt.Sprintf("key id of length %d", l)
	case 7:
		pkh, desc = "wrong-validator-set-hash", "wrong validator set hash"
		sigs = []gcrypto.SparseSignature{{KeyID: kid, Sig: good}}
		expect = "C05:wrong-validator-set-hash"
	case 8:
		// signed by a key that is not a validator
		f := s.Choose("foreign", len(a.foreignKeys))
		vt := tmconsensus.VoteTarget{Height: h, Round: r, BlockHash: hash}
		var sb []byte
		if kind == 0 {
			sb, _ = tmconsensus.PrevoteSignBytes(vt, w.fx.SignatureScheme)
		} else {
			sb, _ = tmconsensus.PrecommitSignBytes(vt, w.fx.SignatureScheme)
		}
		fs, _ := a.foreignKeys[f].Sign(context.Background(), sb)
		sigs, desc = []gcrypto.SparseSignature{{KeyID: kid, Sig: fs}}, "signature by a key outside the validator set"
	case 9:
		// a genuine signature first, then the same bytes re-filed under every other key id
		a.markByz(h, j)
		a.cast(kind, h, r, hash, j)
		cm, k := a.voteMsg(kind, h, r, pkh, map[string][]gcrypto.SparseSignature{hash: {{KeyID: kid, Sig: good}}})
		a.send(cm, k, "valid", fmt.Sprintf("genuine %s %d/%d for %x by %d (to be re-filed)", k, h, r, trunc(hash), j))
		for k2 := 0; k2 < w.cfg.nVal; k2++ {
			if id := a.keyID(h, k2); k2 != j && id >= 0 {
				sigs = append(sigs, gcrypto.SparseSignature{KeyID: vzKeyID(id), Sig: good})
			}
		}
		desc = fmt.Sprintf("validator %d's signature re-filed under all other key ids", j)
	case 10:
		// mix: one valid, one garbage
		a.markByz(h, j)
		a.cast(kind, h, r, hash, j)
		bad := append([]byte(nil), good...)
		bad[0] ^= 0x55
		k2 := (j % (w.cfg.nVal - 1)) + 1
		sigs = []gcrypto.SparseSignature{{KeyID: kid, Sig: good}, {KeyID: vzKeyID(a.keyID(h, k2)), Sig: bad}}
		desc, expect = "one valid and one garbage signature", "mixed"
	}
	cm, k := a.voteMsg(kind, h, r, pkh, map[string][]gcrypto.SparseSignature{hash: sigs})
	a.send(cm, k, expect, fmt.Sprintf("%s %d/%d for %x: %s", k, h, r, trunc(hash), desc))
	w.s.Fault("adversarial_vote")
}

// injectCertificate sends a full, correctly signed > 2/3 certificate that conflicts with or
// duplicates what the chain decided (the environment holds all keys, so it can double-sign).
func (a *vzAdv) injectCertificate() {
	a.advSigning = true
	defer func() { a.advSigning = false }()
	w := a.w
	s := w.s
	h := a.h
	if h > w.cfg.initialHeight && s.Pct("cert-old-height", 70) {
		h = w.cfg.initialHeight + uint64(s.Choose("cert-h", int(a.h-w.cfg.initialHeight)))
	}
	r := uint32(s.Choose("cert-r", 3))
	if ch, ok := a.chain[h]; ok && s.Pct("cert-same-round", 60) {
		r = ch.Proof.Round
	}
	hash := "conflicting-block-hash-.............."
	if s.Pct("cert-duplicate", 30) {
		hash = a.knownHash(h)
	}
	if !a.doubleQuorum {
		// Two different > 2/3 certificates for one height need more than two thirds of the power to
		// equivocate; only a fraction of the runs goes that far outside the fault model. The others
		// send certificates the puppets stand by: the decided block of a decided height (in its round),
		// or the planned block of the current round.
		if ch, decided := a.chain[h]; decided {
			if h >= a.nodeNext() || s.Pct("cert-genuine", 50) {
				hash, r = string(ch.Header.Hash), ch.Proof.Round
			}
		} else if a.plan == 1 && len(a.phs) > 0 {
			hash, r = string(a.phs[0].Header.Hash), a.r
		} else {
			return
		}
	}
	outside := false
	if ch, decided := a.chain[h]; (decided && (hash != string(ch.Header.Hash) || r != ch.Proof.Round)) || (!decided && !(a.plan == 1 && len(a.phs) > 0 && hash == string(a.phs[0].Header.Hash) && r == a.r)) {
		// more than two thirds of the power certify something the honest run does not: validators that
		// respect their locks cannot produce this next to the chain's own certificates
		outside = true
		if !w.beyondModel && h >= a.nodeNext() {
			w.beyondModel = true
			w.s.Logf("adv: a certificate outside the honest run is sent: beyond the fault model from here on")
		}
	}
	a.advSigning = outside // re-sending the chain's own certificate is what any peer does
	var sigs []gcrypto.SparseSignature
	for j := 1; j < w.cfg.nVal; j++ {
		if id := a.keyID(h, j); id >= 0 {
			a.cast(1, h, r, hash, j)
			sigs = append(sigs, gcrypto.SparseSignature{KeyID: vzKeyID(id), Sig: a.signVote(1, h, r, hash, j)})
		}
	}
	cm, k := a.voteMsg(1, h, r, string(a.vs(h).PubKeyHash), map[string][]gcrypto.SparseSignature{hash: sigs})
	a.send(cm, k, "valid", fmt.Sprintf("full precommit certificate for %x at %d/%d (chain height %d)", trunc(hash), h, r, a.h))
	w.s.Fault("conflicting_certificate")
}

func (a *vzAdv) injectBadProposal() {
	w := a.w
	s := w.s
	if len(a.phs) == 0 {
		return
	}
	ph := a.phs[s.Choose("adv-ph", len(a.phs))]
	orig := ph
	// deep-ish copy of what gets mutated
	cp := func(vs tmconsensus.ValidatorSet) tmconsensus.ValidatorSet {
		n := vs
		n.Validators = append([]tmconsensus.Validator(nil), vs.Validators...)
		n.PubKeys = append([]gcrypto.PubKey(nil), vs.PubKeys...)
		return n
	}
	desc, expect := "", "C05:bad-proposal"
	which := s.Choose("adv-badph", 8)
	if w.cfg.oracles["C04"] && s.Pct("adv-badph-predecessor", 40) {
		which = 3 // the chain-linking check is what this run is about
	}
	switch which {
	case 7: // a valid header whose previous commit proof is a genuine certificate from ANOTHER round, with a nil precommit
		if ph.Header.Height <= w.cfg.initialHeight {
			return
		}
		p := ph.Header.PrevCommitProof
		prevH := ph.Header.Height - 1
		or := p.Round + 1 + uint32(s.Choose("other-round", 2))
		np := tmconsensus.CommitProof{Round: or, PubKeyHash: p.PubKeyHash, Proofs: map[string][]gcrypto.SparseSignature{}}
		mainHash := string(ph.Header.PrevBlockHash)
		a.advSigning = true
		// the nil precommit comes from a validator the certificate can do without
		silent := 0
		for _, c := range []int{w.cfg.nVal - 1, 1 + s.Choose("silent", w.cfg.nVal-1)} {
			rest := map[int]bool{}
			for j := 1; j < w.cfg.nVal; j++ {
				if j != c {
					rest[j] = true
				}
			}
			if p2, total := a.power(prevH, rest); 3*p2 > 2*total {
				silent = c
				break
			}
		}
		for j := 1; j < w.cfg.nVal; j++ {
			id := a.keyID(prevH, j)
			if id < 0 {
				continue
			}
			if j == silent {
				// this one precommitted nil in that other round
				a.cast(1, prevH, or, "", j)
				np.Proofs[""] = append(np.Proofs[""], gcrypto.SparseSignature{KeyID: vzKeyID(id), Sig: a.signVote(1, prevH, or, "", j)})
				continue
			}
			a.cast(1, prevH, or, mainHash, j)
			np.Proofs[mainHash] = append(np.Proofs[mainHash], gcrypto.SparseSignature{KeyID: vzKeyID(id), Sig: a.signVote(1, prevH, or, mainHash, j)})
		}
		a.advSigning = false
		ph.Header.PrevCommitProof = np
		w.fx.RecalculateHash(&ph.Header)
		w.fx.SignProposal(context.Background(), &ph, 1)
		// whether the engine accepts such a header is not judged; what it must never do is file the
		// other round's signatures under the round it committed in (C05, checked on every view and store write)
		desc, expect = fmt.Sprintf("re-signed proposal whose previous commit proof is a certificate of round %d (the chain committed in round %d), with one nil precommit", or, p.Round), "valid"
	case 0: // validator list altered, hashes and signature intact (C07)
		ph.Header.NextValidatorSet = cp(ph.Header.NextValidatorSet)
		i := s.Choose("vi", len(ph.Header.NextValidatorSet.Validators))
		ph.Header.NextValidatorSet.Validators[i].Power += 1_000_000
		desc, expect = "next validator list altered in transit (power), hashes and signature intact", "C07:validator-list-tampered"
	case 1:
		ph.Header.ValidatorSet = cp(ph.Header.ValidatorSet)
		n := len(ph.Header.ValidatorSet.Validators)
		if n >= 2 {
			vs := ph.Header.ValidatorSet
			vs.Validators[0], vs.Validators[1] = vs.Validators[1], vs.Validators[0]
			vs.PubKeys[0], vs.PubKeys[1] = vs.PubKeys[1], vs.PubKeys[0]
		}
		desc, expect = "validator list reordered in transit, hashes and signature intact", "C07:validator-list-tampered"
	case 2: // a hash-covered field altered, stored hash kept (C15 at delivery)
		ph.Header.DataID = append([]byte("tampered-"), ph.Header.DataID...)
		desc, expect = "DataID altered in transit, hash field kept", "C15:field-tampered"
	case 3:
		if ph.Header.Height <= w.cfg.initialHeight {
			return // the initial height has no predecessor to name
		}
		if s.Pct("adv-badph-at-node", 50) {
			// aim at the node's own position: its voting round or the round after it
			w.mu.Lock()
			var pos [4]uint64
			if n := len(a.nd.disk.nhr); n > 0 {
				pos = a.nd.disk.nhr[n-1]
			}
			w.mu.Unlock()
			if base, ok := a.chainPH[pos[0]]; ok && pos[0] > w.cfg.initialHeight {
				ph = base
				ph.Round = uint32(pos[1])
			} else if pos[0] == ph.Header.Height {
				ph.Round = uint32(pos[1])
			}
		}
		ph.Header.PrevBlockHash = []byte("not-the-committed-predecessor-hash..")
		certified := false
		if prev, ok := a.chain[ph.Header.Height-1]; ok && a.doubleQuorum && s.Pct("adv-badph-certified", 70) {
			// The foreign predecessor comes with a certificate of its own: the validators have signed a
			// second block at the previous height (far outside the fault model; the node's own chain
			// must stay linked all the same).
			alt := prev.Header
			alt.DataID = append([]byte("alt-"), alt.DataID...)
			w.fx.RecalculateHash(&alt)
			a.advSigning = true
			np := tmconsensus.CommitProof{Round: prev.Proof.Round, PubKeyHash: prev.Proof.PubKeyHash, Proofs: map[string][]gcrypto.SparseSignature{}}
			signers := map[int]bool{}
			for j := 1; j < w.cfg.nVal; j++ {
				if id := a.keyID(alt.Height, j); id >= 0 {
					signers[j] = true
					a.cast(1, alt.Height, np.Round, string(alt.Hash), j)
					np.Proofs[string(alt.Hash)] = append(np.Proofs[string(alt.Hash)], gcrypto.SparseSignature{KeyID: vzKeyID(id), Sig: a.signVote(1, alt.Height, np.Round, string(alt.Hash), j)})
				}
			}
			a.advSigning = false
			if pw, total := a.power(alt.Height, signers); 3*pw > 2*total {
				if !w.beyondModel && alt.Height >= a.nodeNext() {
					w.beyondModel = true
					w.s.Logf("adv: a certificate outside the honest run is sent: beyond the fault model from here on")
				}
				ph.Header.PrevBlockHash = alt.Hash
				ph.Header.PrevCommitProof = np
				certified = true
			}
		}
		if s.Pct("adv-badph-next-round", 50) {
			ph.Round++ // lands in the next-round view
		}
		w.fx.RecalculateHash(&ph.Header)
		w.fx.SignProposal(context.Background(), &ph, 1)
		desc, expect = fmt.Sprintf("re-signed proposal for round %d naming a foreign predecessor (certified: %t)", ph.Round, certified), "C04:foreign-predecessor-proposal"
	case 4:
		ph.Signature = append([]byte(nil), ph.Signature...)
		ph.Signature[3] ^= 0x10
		desc, expect = "proposer signature bit-flipped", "C05:bad-proposer-signature"
	case 5:
		ph.ProposerPubKey = nil
		desc, expect = "proposer public key missing", "C05:missing-proposer-key"
	case 6: // previous commit proof with a garbage signature next to genuine ones
		if ph.Header.Height > w.cfg.initialHeight {
			p := ph.Header.PrevCommitProof
			np := tmconsensus.CommitProof{Round: p.Round, PubKeyHash: p.PubKeyHash, Proofs: map[string][]gcrypto.SparseSignature{}}
			for k, v := range p.Proofs {
				np.Proofs[k] = append([]gcrypto.SparseSignature(nil), v...)
			}
			vict := 1 + s.Choose("vict", w.cfg.nVal-1)
			prevH := ph.Header.Height - 1
			// The genuine nil precommit must come from a validator that is not among the signers of the
			// committed block in this proof (otherwise the proof is rejected as double signed before any
			// signature is looked at): take the victim out of the main entry if the rest still exceeds 2/3.
			mainHash := string(ph.Header.PrevBlockHash)
			victID := a.keyID(prevH, vict)
			var kept []gcrypto.SparseSignature
			rest := map[int]bool{}
			for _, sg := range np.Proofs[mainHash] {
				if string(sg.KeyID) == string(vzKeyID(victID)) {
					continue
				}
				kept = append(kept, sg)
				for j := 1; j < w.cfg.nVal; j++ {
					if string(vzKeyID(a.keyID(prevH, j))) == string(sg.KeyID) {
						rest[j] = true
					}
				}
			}
			genuine := false
			if p2, total := a.power(prevH, rest); 3*p2 > 2*total {
				np.Proofs[mainHash] = kept
				genuine = true
			}
			genuineNil := a.signVote(1, prevH, p.Round, "", vict)
			if genuine {
				a.cast(1, prevH, p.Round, "", vict)
			}
			garbage := append([]byte(nil), genuineNil...)
			garbage[5] ^= 0x77
			// the forged signature is filed under the key of the real node, which never is in the puppets' proof
			forged := gcrypto.SparseSignature{KeyID: vzKeyID(a.keyID(prevH, 0)), Sig: garbage}
			if genuine {
				np.Proofs[""] = append(np.Proofs[""], gcrypto.SparseSignature{KeyID: vzKeyID(victID), Sig: genuineNil}, forged)
			} else {
				np.Proofs[""] = append(np.Proofs[""], forged)
			}
			ph.Header.PrevCommitProof = np
			w.fx.RecalculateHash(&ph.Header)
			w.fx.SignProposal(context.Background(), &ph, 1)
			desc, expect = "re-signed proposal whose previous commit proof mixes a genuine and a forged nil precommit", "C05:forged-prev-commit-signature"
		} else {
			return
		}
	}
	_ = orig
	a.send(tmcodec.ConsensusMessage{ProposedHeader: &ph}, "ph", expect, fmt.Sprintf("proposal %d/%d: %s", ph.Header.Height, ph.Round, desc))
	w.s.Fault("adversarial_proposal")
}

// injectReplay offers a header on the replayed-header channel (mirror catch-up).
func (a *vzAdv) injectReplay() {
	w := a.w
	s := w.s
	if a.replayCh == nil || len(a.chain) == 0 {
		return
	}
	hs := make([]uint64, 0, len(a.chain))
	for h := range a.chain {
		hs = append(hs, h)
	}
	sort.Slice(hs, func(i, j int) bool { return hs[i] < hs[j] })
	h := hs[s.Choose("replay-h", len(hs))]
	if a.genuineReplay {
		// catch-up traffic of the honest script: the header the node is voting on
		w.mu.Lock()
		if n := len(a.nd.disk.nhr); n > 0 {
			h = a.nd.disk.nhr[n-1][0]
		}
		w.mu.Unlock()
		if _, ok := a.chain[h]; !ok {
			return
		}
	}
	ch := a.chain[h]
	// Known finding (C09): a replayed header of the voting height whose commit round is below the
	// mirror's voting round panics the kernel ("TODO: handle replay for earlier round").
	// Most runs steer around it so that they can explore further.
	allowEarlier := s.Pct("replay-earlier-round", 8)
	earlier := func() bool {
		w.mu.Lock()
		nhr := a.nd.disk.nhr
		w.mu.Unlock()
		n := len(nhr)
		return n > 0 && nhr[n-1][0] == h && uint64(ch.Proof.Round) < nhr[n-1][1]
	}
	if earlier() && !allowEarlier {
		return
	}
	hdr := ch.Header
	proof := tmconsensus.CommitProof{Round: ch.Proof.Round, PubKeyHash: ch.Proof.PubKeyHash, Proofs: map[string][]gcrypto.SparseSignature{}}
	for k, v := range ch.Proof.Proofs {
		proof.Proofs[k] = append([]gcrypto.SparseSignature(nil), v...)
	}
	kind := s.Choose("replay-kind", 8)
	if a.genuineReplay {
		kind = 0
	}
	desc, expect := "genuine committed header", "valid-replay"
	switch kind {
	case 7: // the genuine header and signatures, but the certificate claims a later round than the one the precommits were made for
		proof.Round = ch.Proof.Round + 1 + uint32(s.Choose("relabel", 2))
		desc, expect = "genuine header whose certificate is labelled with a later round than its precommits were signed for", "corrupt-replay"
	case 6: // genuine header, validator list and hashes; only the redundant PubKeys slice names foreign keys, which sign the certificate
		vs := hdr.ValidatorSet
		vs.PubKeys = append([]gcrypto.PubKey(nil), a.foreignVals.PubKeys...)
		if len(vs.PubKeys) > len(vs.Validators) {
			vs.PubKeys = vs.PubKeys[:len(vs.Validators)]
		}
		if len(vs.PubKeys) < len(vs.Validators) {
			return
		}
		hdr.ValidatorSet = vs
		proof = tmconsensus.CommitProof{Round: ch.Proof.Round, PubKeyHash: ch.Proof.PubKeyHash, Proofs: map[string][]gcrypto.SparseSignature{}}
		sb, _ := tmconsensus.PrecommitSignBytes(tmconsensus.VoteTarget{Height: h, Round: proof.Round, BlockHash: string(hdr.Hash)}, w.fx.SignatureScheme)
		for i, k := range a.foreignKeys {
			if i >= len(vs.PubKeys) {
				break
			}
			sg, _ := k.Sign(context.Background(), sb)
			proof.Proofs[string(hdr.Hash)] = append(proof.Proofs[string(hdr.Hash)], gcrypto.SparseSignature{KeyID: vzKeyID(i), Sig: sg})
		}
		desc, expect = "genuine header whose PubKeys slice (not covered by any hash) names foreign keys that sign the certificate", "foreign-replay"
	case 5: // the genuine header and certificate, but a validator list altered in transit (hashes intact)
		if s.Pct("replay-tamper-next", 60) {
			nvs := hdr.NextValidatorSet
			nvs.Validators = append([]tmconsensus.Validator(nil), nvs.Validators...)
			nvs.PubKeys = append([]gcrypto.PubKey(nil), nvs.PubKeys...)
			nvs.Validators[s.Choose("vi", len(nvs.Validators))].Power += 1_000_000
			hdr.NextValidatorSet = nvs
			desc, expect = "genuine header and certificate, next validator list altered in transit (hashes intact)", "tampered-valset-replay"
		} else {
			vs := hdr.ValidatorSet
			vs.Validators = append([]tmconsensus.Validator(nil), vs.Validators...)
			vs.PubKeys = append([]gcrypto.PubKey(nil), vs.PubKeys...)
			vs.Validators[s.Choose("vi", len(vs.Validators))].Power += 1_000_000
			hdr.ValidatorSet = vs
			desc, expect = "genuine header and certificate, validator list altered in transit (hashes intact)", "tampered-valset-replay"
		}
	case 1: // certified only by keys that are not validators, with a self-consistent foreign validator set
		hdr.ValidatorSet = a.foreignVals
		hdr.NextValidatorSet = a.foreignVals
		w.fx.RecalculateHash(&hdr)
		proof = tmconsensus.CommitProof{Round: ch.Proof.Round, PubKeyHash: string(a.foreignVals.PubKeyHash), Proofs: map[string][]gcrypto.SparseSignature{}}
		sb, _ := tmconsensus.PrecommitSignBytes(tmconsensus.VoteTarget{Height: h, Round: proof.Round, BlockHash: string(hdr.Hash)}, w.fx.SignatureScheme)
		for i, k := range a.foreignKeys {
			sg, _ := k.Sign(context.Background(), sb)
			proof.Proofs[string(hdr.Hash)] = append(proof.Proofs[string(hdr.Hash)], gcrypto.SparseSignature{KeyID: vzKeyID(i), Sig: sg})
		}
		desc, expect = "header certified only by keys that are not validators (self-consistent foreign validator set)", "foreign-replay"
	case 2: // fully signed by the real validators but naming a foreign predecessor
		if h <= w.cfg.initialHeight {
			return
		}
		hdr.PrevBlockHash = []byte("not-the-committed-predecessor-hash..")
		w.fx.RecalculateHash(&hdr)
		proof.Proofs = map[string][]gcrypto.SparseSignature{}
		for j := 1; j < w.cfg.nVal; j++ {
			if id := a.keyID(h, j); id >= 0 {
				a.cast(1, h, proof.Round, string(hdr.Hash), j)
				proof.Proofs[string(hdr.Hash)] = append(proof.Proofs[string(hdr.Hash)], gcrypto.SparseSignature{KeyID: vzKeyID(id), Sig: a.signVote(1, h, proof.Round, string(hdr.Hash), j)})
			}
		}
		desc, expect = "header signed by the validators but naming a foreign predecessor hash", "foreign-prev-replay"
	case 3: // insufficient power
		for k, v := range proof.Proofs {
			if len(v) > 1 {
				proof.Proofs[k] = v[:1]
			}
		}
		desc, expect = "header with a certificate below 2/3", "weak-replay"
	case 4: // one signature corrupted
		for k, v := range proof.Proofs {
			if len(v) > 0 {
				v[0].Sig = append([]byte(nil), v[0].Sig...)
				v[0].Sig[1] ^= 0x21
				proof.Proofs[k] = v
				break
			}
		}
		desc, expect = "header with a corrupted certificate signature", "corrupt-replay"
	}
	w.s.Fault("replayed_header")
	w.s.Logf("adv replay h=%d: %s", h, desc)
	if len(a.notes) < 60 {
		a.notes = append(a.notes, fmt.Sprintf("replay h=%d: %s", h, desc))
	}
	a.nInject++
	id := a.nInject
	ctx := a.nd.ctx
	go func() {
		resp := make(chan tmelink.ReplayedHeaderResponse, 1)
		w.s.ParkID(fmt.Sprintf("%s.replay%d", a.nd.ident(), id), "replay", "send")
		if earlier() && !allowEarlier {
			w.s.Logf("adv replay %d withdrawn (the node's voting round has passed its commit round)", id)
			return
		}
		select {
		case a.replayCh <- tmelink.ReplayedHeaderRequest{Header: hdr, Proof: proof, Resp: resp}:
		case <-ctx.Done():
			return
		}
		select {
		case r := <-resp:
			if ctx.Err() != nil {
				// answered by a dying process: the same as no answer
				w.orc.onReplayUnanswered(a.nd, hdr)
				return
			}
			w.s.Logf("adv replay %d (%s) => err=%s", id, expect, vzErrClass(r.Err))
			w.orc.onReplayResult(a.nd, hdr, proof, expect, r.Err)
		case <-ctx.Done():
			w.orc.onReplayUnanswered(a.nd, hdr)
		}
	}()
}

// nodeNext is the first height the real node has not finalized yet.
func (a *vzAdv) nodeNext() uint64 {
	a.w.mu.Lock()
	defer a.w.mu.Unlock()
	h := a.w.cfg.initialHeight
	for a.nd.fin[h] != "" {
		h++
	}
	return h
}

// remember keeps the latest honest message per height, round, kind and target (vote messages are cumulative).
func (a *vzAdv) remember(h uint64, r uint32, kind int, hash string, cm tmcodec.ConsensusMessage) {
	if a.said[h] == nil {
		a.said[h] = map[string]tmcodec.ConsensusMessage{}
	}
	a.said[h][fmt.Sprintf("%06d/%d/%x", r, kind, hash)] = cm
}

// regossip resends, as any peer would, the decided proposal and the full commit certificate of the
// first height the node is missing.
func (a *vzAdv) regossip() {
	h := a.nodeNext()
	ch, ok := a.chain[h]
	if !ok {
		return
	}
	// first everything the puppets said in the earlier rounds of that height (a node that is still in
	// round 0 can only follow the network round by round), then the decision
	var keys []string
	for k := range a.said[h] {
		keys = append(keys, k)
	}
	sort.Strings(keys)
	for _, k := range keys {
		var r uint32
		fmt.Sscanf(k, "%06d", &r)
		if r >= ch.Proof.Round {
			continue
		}
		cm := a.said[h][k]
		kind := "ph"
		if cm.PrevoteProof != nil {
			kind = "prevote"
		} else if cm.PrecommitProof != nil {
			kind = "precommit"
		}
		a.send(cm, kind, "valid", fmt.Sprintf("regossip of round %d/%d traffic (%s)", h, r, kind))
	}
	if ph, ok := a.chainPH[h]; ok {
		a.send(tmcodec.ConsensusMessage{ProposedHeader: &ph}, "ph", "valid", fmt.Sprintf("regossip of the decided proposal %d/%d", h, ph.Round))
	}
	cm, k := a.voteMsg(1, h, ch.Proof.Round, ch.Proof.PubKeyHash, ch.Proof.Proofs)
	a.send(cm, k, "valid", fmt.Sprintf("regossip of the commit certificate of %d/%d", h, ch.Proof.Round))
}

// resendRound sends again everything the puppets have said in their current round.
func (a *vzAdv) resendRound() {
	for i := range a.phs {
		ph := a.phs[i]
		a.send(tmcodec.ConsensusMessage{ProposedHeader: &ph}, "ph", "valid", fmt.Sprintf("resend of proposal %d/%d", a.h, a.r))
	}
	for kind := 0; kind < 2; kind++ {
		var hashes []string
		for hash := range a.voted[kind] {
			hashes = append(hashes, hash)
		}
		sort.Strings(hashes)
		for _, hash := range hashes {
			var who []int
			for v := range a.voted[kind][hash] {
				who = append(who, v)
			}
			sort.Ints(who)
			var sigs []gcrypto.SparseSignature
			for _, v := range who {
				sigs = append(sigs, gcrypto.SparseSignature{KeyID: vzKeyID(a.keyID(a.h, v)), Sig: a.signVote(kind, a.h, a.r, hash, v)})
			}
			if len(sigs) == 0 {
				continue
			}
			cm, k := a.voteMsg(kind, a.h, a.r, string(a.vs(a.h).PubKeyHash), map[string][]gcrypto.SparseSignature{hash: sigs})
			a.send(cm, k, "valid", fmt.Sprintf("resend of %s %d/%d for %x by %v", k, a.h, a.r, trunc(hash), who))
		}
	}
}

func (a *vzAdv) injected() int {
	f := a.w.s.Faults
	return f["adversarial_vote"] + f["conflicting_certificate"] + f["adversarial_proposal"] + f["replayed_header"]
}

func (a *vzAdv) actions() []vsimcore.Action {
	w := a.w
	s := w.s
	a.releaseWithheld()
	var acts []vsimcore.Action
	w.mu.Lock()
	inflight := len(w.inflight)
	w.mu.Unlock()
	if inflight > 40 {
		return nil // let the node catch up with what is already on the wire
	}
	w.mu.Lock()
	inc, down := a.nd.inc, a.nd.down || a.nd.dead
	w.mu.Unlock()
	if inc != a.lastInc && !down {
		// a new incarnation is up: peers notice and resend what it may have missed
		if a.lastInc != 0 {
			a.regossips = map[uint64]int{}
			a.resendPending = true
			if a.crashEnum && inc == 2 && s.Pct("second-crash", 25) {
				w.crashAtWrite = a.nd.disk.writes + 1 + s.Choose("second-crash-after", 40)
				w.s.Logf("adv: a second crash is armed at write %d", w.crashAtWrite)
			}
		}
		a.lastInc = inc
		a.replayCh = a.nd.replayCh
	}
	if a.resendPending && !down && inflight == 0 {
		acts = append(acts, vsimcore.Action{Name: "adv: resend current round", Weight: 6, Do: func() { a.resendPending = false; a.resendRound() }})
	}
	next := a.nodeNext()
	// a few times per position of the node (height, voting height/round), and only on a quiet wire,
	// so that the node's timers get their turn
	rk := next * 1_000_000
	w.mu.Lock()
	if n := len(a.nd.disk.nhr); n > 0 {
		rk += a.nd.disk.nhr[n-1][0]*1000 + a.nd.disk.nhr[n-1][1]
	}
	w.mu.Unlock()
	if next < a.h && inflight == 0 && a.regossips[rk] < 4 {
		acts = append(acts, vsimcore.Action{Name: "adv: regossip", Weight: 4, Do: func() { a.regossips[rk]++; a.regossip() }})
	}
	if a.h < w.cfg.initialHeight+w.cfg.heights && a.h <= next+a.lead {
		if len(a.phs) == 0 || (len(a.phs) < 2 && s.Steps%7 == 0) {
			acts = append(acts, vsimcore.Action{Name: "adv: proposal", Weight: 6, Do: a.propose})
		}
		if a.plan == 0 || a.canVote() || len(a.cands(0))+len(a.cands(1)) == 0 {
			acts = append(acts, vsimcore.Action{Name: "adv: honest vote", Weight: 10, Do: func() { a.honestVote() }})
		}
	}
	if a.crashEnum && next < a.h && a.replayCh != nil && w.s.Faults["replayed_header"] < 12 {
		// the honest script of a crash run includes catch-up through genuine replayed headers
		acts = append(acts, vsimcore.Action{Name: "adv: genuine replayed header", Weight: 2, Do: func() {
			a.genuineReplay = true
			a.injectReplay()
			a.genuineReplay = false
		}})
	}
	if w.cfg.rEquivocate > 0 && a.injected() < a.budget { // adversarial traffic enabled in this run
		acts = append(acts, vsimcore.Action{Name: "adv: bad vote", Weight: 3, Do: a.injectBadVote})
		acts = append(acts, vsimcore.Action{Name: "adv: certificate", Weight: 1, Do: a.injectCertificate})
		acts = append(acts, vsimcore.Action{Name: "adv: bad proposal", Weight: 2, Do: a.injectBadProposal})
		acts = append(acts, vsimcore.Action{Name: "adv: replayed header", Weight: 1, Do: a.injectReplay})
	}
	return acts
}

func runNode(s *vsimcore.Sim, p vsimcore.Params) vsimcore.RunInfo {
	var info vsimcore.RunInfo
	cfg := vzConfig{oracles: vzOracleSet(p), initialHeight: 1, maxSteps: p.Int("max_steps", 6000)}
	// Crash enumeration (H-CRASH): a batch of consecutive seeds shares one scripted history
	// (seed / crash_points) and walks the crash position through every store write
	// (seed % crash_points + 1); a second crash is sampled during recovery in some runs.
	crashEnum := p.Bool("crash_enum", false)
	crashK, crashK2 := 0, 0
	if crashEnum {
		K := p.Int("crash_points", 120)
		crashK = 1 + s.ChooseFixed("crash-point", K, int(s.Seed%uint64(K)))
		s.Reseed(s.Seed/uint64(K) + 0x5eed)
		cfg.parkStores = true
	}
	cfg.nVal = 4 + s.Choose("validators", 3)
	cfg.heights = uint64(2 + s.Choose("heights", 3))
	if s.Pct("initial-height", 25) {
		cfg.initialHeight = uint64(2 + s.Choose("ih", 40))
	}
	cfg.powers = make([]uint64, cfg.nVal)
	byzDust := false
	switch s.Choose("powers", 5) {
	case 4:
		// two heavy honest validators decide everything; the node is light; the remaining validators are
		// dust and, in half of these runs, Byzantine (below one third of the power by a wide margin):
		// they precommit another proposal than the honest ones
		cfg.nVal = 6
		cfg.powers = []uint64{10, 50, 30, 3, 3, 3}
		byzDust = s.Pct("byz-dust", 50)
	case 3:
		// one validator with negligible power: it can dissent, stay silent or lag without ever deciding anything
		for i := range cfg.powers {
			cfg.powers[i] = 100
		}
		cfg.powers[cfg.nVal-1] = 1
	case 0:
		for i := range cfg.powers {
			cfg.powers[i] = 100
		}
	case 1:
		for i := range cfg.powers {
			cfg.powers[i] = uint64(100000 - i)
		}
	case 2:
		// the real node (validator 0) is a whale just below one third
		for i := range cfg.powers {
			cfg.powers[i] = 70
		}
		cfg.powers[0] = uint64(70*(cfg.nVal-1)/2 - 1)
	}
	cfg.rotate = p.Bool("rotate", false) && s.Pct("rotate", 70)
	cfg.rotatePowersOnly = cfg.rotate && s.Pct("rotate-powers-only", 50)
	cfg.dropDupMapper = s.Pct("dropdup-mapper", 50)
	if p.Bool("adversarial", true) && s.Pct("adversarial-traffic", 85) {
		cfg.rEquivocate = 1
	}
	if s.Pct("f-dup", 40) {
		cfg.rDup, cfg.rReplay = 5+s.Choose("r", 20), 0
	}
	if s.Pct("f-handler-cancel", 40) {
		cfg.rCancel = 5 + s.Choose("r", 40)
	}
	if s.Pct("f-early-timer", 60) {
		cfg.rEarlyTimer = 2 + s.Choose("r", 30)
	}
	if cfg.oracles["C11"] {
		// pauses of all inputs in the middle of the history, at which the consumers must be current
		cfg.rLull = []int{0, 6, 12, 25}[s.Choose("lull-rate", 4)]
	}
	if crashEnum {
		cfg.rEquivocate = 0 // honest traffic only: the final chain is a function of the script
	}
	w := newVzWorld(s, cfg)
	w.replayEnabled = true
	if crashEnum {
		w.crashNode, w.crashAtWrite = 0, crashK
	}
	adv := &vzAdv{w: w, h: cfg.initialHeight, voted: [2]map[string]map[int]bool{{}, {}}, chain: map[uint64]tmconsensus.CommittedHeader{},
		chainPH: map[uint64]tmconsensus.ProposedHeader{}, said: map[uint64]map[string]tmcodec.ConsensusMessage{}, signedFor: map[string]map[int]map[string]bool{}, regossips: map[uint64]int{}, lead: uint64([]int{0, 1, 10}[s.ChooseW("adv-lead", []int{6, 3, 2})]), valsets: map[uint64]tmconsensus.ValidatorSet{}, expect: map[int]string{}, rotate: cfg.rotate}
	w.adv = adv
	adv.budget = []int{8, 30, 100, 400}[s.Choose("adv-budget", 4)]
	adv.doubleQuorum = s.Pct("adv-double-quorum", 12)
	adv.crashEnum = crashEnum
	adv.byzDust = byzDust
	// a self-consistent validator set of keys that are not validators
	fv := w.foreignPrivVals(cfg.nVal)
	adv.foreignVals, _ = tmconsensus.NewValidatorSet(fv.Vals(), w.fx.HashScheme)
	for _, v := range fv {
		adv.foreignKeys = append(adv.foreignKeys, v.Signer)
	}
	stalled := false
	fill := func() {
		reached := 0
		for range w.nodes[0].fin {
			reached++
		}
		info.Nontrivial = reached >= 1
		info.Extra = map[string]int{"heights_finalized": reached}
		if crashEnum {
			// a crash run is non-trivial when the process really died inside the history and was restarted
			info.Nontrivial = reached >= 1 && w.nodes[0].inc > 1
			info.Extra["restarts"] = w.nodes[0].inc - 1
		}
		nf := 0
		for _, v := range s.Faults {
			nf += v
		}
		info.States = []string{fmt.Sprintf("v%d/h%d/f%d/rot%t", cfg.nVal, reached, min(nf/4, 6), cfg.rotate)}
		if crashEnum {
			info.States = []string{fmt.Sprintf("v%d/h%d/crash@%d/inc%d", cfg.nVal, reached, crashK, w.nodes[0].inc)}
		}
		info.Sample = map[string]any{"harness": "node", "validators": cfg.nVal, "powers": cfg.powers, "initial_height": cfg.initialHeight,
			"heights_finalized_by_node": reached, "chain_heights": len(adv.chain), "crash_at_write": crashK, "incarnations": w.nodes[0].inc, "faults": s.Faults, "adversary_messages": adv.notes}
	}
	s.Bubble(func() {
		w.rootCtx, w.rootCancel = context.WithCancel(context.Background())
		w.installHooks()
		defer w.removeHooks()
		nd := w.addNode(0, false)
		adv.nd = nd
		// the chain's validator sets: genesis for the first two heights, then the application's policy
		adv.valsets[cfg.initialHeight] = w.fx.ValSet()
		adv.valsets[cfg.initialHeight+1] = w.fx.ValSet()
		w.start(nd)
		adv.replayCh = nd.replayCh
		target := cfg.initialHeight + cfg.heights - 1
		done := func() bool {
			w.mu.Lock()
			defer w.mu.Unlock()
			if crashEnum {
				// what counts is what the node holds durably, in an incarnation that is up
				return nd.disk.fins[target] != "" && !nd.down && !nd.dead && len(w.inflight) == 0 && (w.crashAtWrite <= nd.disk.writes)
			}
			return nd.fin[target] != "" && len(w.inflight) == 0
		}
		stalled = w.run(done, adv.actions)
		_ = stalled
		w.finalChecks()
		info.SimNs = int64(s.SimTime())
		if w.beyondModel {
			s.Probe("run_beyond_fault_model")
		}
		if !crashEnum && !w.beyondModel && len(adv.chain) > 0 && w.endReason == "quiescent" {
			// nothing is enabled any more although the peers have decided heights and resent them:
			// whatever the node has not committed and finalized by now it never will
			chain := map[uint64]string{}
			rounds := map[uint64]uint32{}
			for h, ch := range adv.chain {
				chain[h] = string(ch.Header.Hash)
				rounds[h] = ch.Proof.Round
			}
			w.orc.checkServing(nd, chain, rounds, cfg.initialHeight+uint64(len(chain))-1)
		}
		if crashEnum {
			w.mu.Lock()
			crashed := nd.inc > 1 && !nd.down && !nd.dead
			w.mu.Unlock()
			chain := map[uint64]string{}
			for h, ch := range adv.chain {
				chain[h] = string(ch.Header.Hash)
			}
			if len(chain) > 0 && (w.endReason == "done" || w.endReason == "quiescent") {
				// nothing is left to do: the node must hold every height the puppets have decided
				w.orc.checkRecovered(nd, chain, cfg.initialHeight+uint64(len(chain))-1, crashed)
			} else if crashed {
				s.Probe("recovery_inconclusive_" + w.endReason)
			}
			if crashed {
				s.Probe("crash_then_restart")
			}
			if !crashed && nd.inc == 1 {
				s.Probe("crash_point_beyond_history")
			}
			_ = crashK2
		}
		fill()
		s.Checkpoint(info)
		s.Freeze()
		w.shutdown()
	})
	fill()
	return info
}

var _ = bytes.Equal
var _ = strings.Contains
