//go:build verif

package tmengine

// Store wrappers of the simulation harness (copied into a scratch copy of the repository by
// /verif/check; never part of /repo). Every write is a park (a crash point) when the node is
// configured that way; a write that is released after the node's process has died is not applied.

import (
	"bytes"
	"context"
	"fmt"
	"runtime"
	"sort"

	"github.com/gordian-engine/gordian/gcrypto"
	"github.com/gordian-engine/gordian/tm/tmconsensus"
	"github.com/gordian-engine/gordian/tm/tmstore"
	"github.com/gordian-engine/gordian/tm/tmstore/tmmemstore"
)

// vzDisk is the durable state of one node: the real memstores plus shadow records for oracles.
type vzDisk struct {
	action               *tmmemstore.ActionStore
	commit               *tmmemstore.CommittedHeaderStore
	fin                  *tmmemstore.FinalizationStore
	mirror               *tmmemstore.MirrorStore
	round                *tmmemstore.RoundStore
	sm                   *tmmemstore.StateMachineStore
	val                  *tmmemstore.ValidatorStore
	writes               int                 // completed writes, all stores
	commits              map[uint64][]string // every hash ever saved as committed, per height, in order
	commitCH             map[uint64]tmconsensus.CommittedHeader
	onRecord             map[string]map[string]string // h/r -> kind -> signature the action store has accepted
	replayedSaved        map[string]uint64            // headers written through SaveRoundReplayedHeader (hash -> height)
	replayAccepted       map[string]bool              // headers whose replay the engine answered without error
	enteredRound         map[uint64]uint32            // highest round the state machine has entered per height, across incarnations (oracle bookkeeping)
	commitDigest         map[uint64]string            // what was saved, as a value (hash, proof round, signer key ids and signatures per target)
	nhr                  [][4]uint64                  // every network height/round ever set
	fins                 map[uint64]string            // finalization saved per height (hash|apphash|valhash)
	finOverwriteAttempts int
	lock                 map[uint64]string // the reference strategy's durable lock, per height
}

func newVzDisk(hs tmconsensus.HashScheme) *vzDisk {
	return &vzDisk{
		action: tmmemstore.NewActionStore(), commit: tmmemstore.NewCommittedHeaderStore(), fin: tmmemstore.NewFinalizationStore(),
		mirror: tmmemstore.NewMirrorStore(), round: tmmemstore.NewRoundStore(), sm: tmmemstore.NewStateMachineStore(),
		val:     tmmemstore.NewValidatorStore(hs),
		commits: map[uint64][]string{}, commitCH: map[uint64]tmconsensus.CommittedHeader{}, commitDigest: map[uint64]string{}, fins: map[uint64]string{}, lock: map[uint64]string{},
	}
}

// vzStores is one incarnation's view of the disk.
type vzStores struct {
	nd *vzNode
	d  *vzDisk
}

// gate parks (if configured) and reports whether the write may be applied.
func (st vzStores) gate(ctx context.Context, method string) error {
	nd := st.nd
	if nd.w.cfg.parkStores {
		nd.w.s.ParkID(nd.ident(), "store", method)
	}
	if nd.isDead() {
		// The process died before this write was applied. Nothing of the dead process runs on: the
		// calling goroutine ends here (its deferred functions let the harness see the engine stop).
		// Returning an error instead would make the dying incarnation act on a store failure that
		// never happened (the replay path of the kernel panics on any store error).
		runtime.Goexit()
	}
	st.d.writes++
	nd.w.s.Logf("%s store %s (write %d)", nd.ident(), method, st.d.writes)
	if nd.w.crashAtWrite > 0 && nd.idx == nd.w.crashNode && st.d.writes == nd.w.crashAtWrite {
		nd.w.pendingCrash = true // the scheduler crashes the node right after this write
	}
	return nil
}

type vzActionStore struct{ vzStores }

func (s vzActionStore) SaveProposedHeaderAction(ctx context.Context, ph tmconsensus.ProposedHeader) error {
	if err := s.gate(ctx, "SaveProposedHeaderAction"); err != nil {
		return err
	}
	err := s.d.action.SaveProposedHeaderAction(ctx, ph)
	s.nd.w.onActionSaved(s.nd, "proposal", ph.Header.Height, ph.Round, string(ph.Signature), err)
	s.recorded(ctx, ph.Header.Height, ph.Round, "proposal", string(ph.Signature), err)
	return err
}
func (s vzActionStore) SavePrevoteAction(ctx context.Context, pk gcrypto.PubKey, vt tmconsensus.VoteTarget, sig []byte) error {
	if err := s.gate(ctx, "SavePrevoteAction"); err != nil {
		return err
	}
	err := s.d.action.SavePrevoteAction(ctx, pk, vt, sig)
	s.nd.w.onActionSaved(s.nd, "prevote", vt.Height, vt.Round, string(sig), err)
	s.recorded(ctx, vt.Height, vt.Round, "prevote", string(sig), err)
	return err
}
func (s vzActionStore) SavePrecommitAction(ctx context.Context, pk gcrypto.PubKey, vt tmconsensus.VoteTarget, sig []byte) error {
	if err := s.gate(ctx, "SavePrecommitAction"); err != nil {
		return err
	}
	err := s.d.action.SavePrecommitAction(ctx, pk, vt, sig)
	s.nd.w.onActionSaved(s.nd, "precommit", vt.Height, vt.Round, string(sig), err)
	s.recorded(ctx, vt.Height, vt.Round, "precommit", string(sig), err)
	return err
}

// recorded (C02): every signature the action store has accepted for a round is still on record after
// every later save (it is the only guard against signing twice across restarts).
func (s vzActionStore) recorded(ctx context.Context, h uint64, r uint32, kind, sig string, err error) {
	if !s.nd.w.cfg.oracles["C02"] || s.nd.byz {
		return
	}
	k := fmt.Sprintf("%d/%d", h, r)
	if s.d.onRecord == nil {
		s.d.onRecord = map[string]map[string]string{}
	}
	if s.d.onRecord[k] == nil {
		s.d.onRecord[k] = map[string]string{}
	}
	if err == nil {
		s.d.onRecord[k][kind] = sig
	}
	want := s.d.onRecord[k]
	ra, lerr := s.d.action.LoadActions(ctx, h, r)
	if lerr != nil {
		if len(want) > 0 {
			s.nd.w.orc.violate("C02", "recorded-signature-lost/load-failed", "%s: after saving a %s the action store cannot load round %d/%d any more: %v", s.nd.ident(), kind, h, r, lerr)
		}
		return
	}
	have := map[string]string{"proposal": string(ra.ProposedHeader.Signature), "prevote": ra.PrevoteSignature, "precommit": ra.PrecommitSignature}
	for _, kk := range []string{"proposal", "prevote", "precommit"} {
		if want[kk] != "" && have[kk] != want[kk] {
			s.nd.w.orc.violate("C02", "recorded-signature-lost/"+kk, "%s: after saving a %s for round %d/%d the action store no longer holds the %s signature it had recorded for that round", s.nd.ident(), kind, h, r, kk)
		}
	}
}

func (s vzActionStore) LoadActions(ctx context.Context, h uint64, r uint32) (tmstore.RoundActions, error) {
	return s.d.action.LoadActions(ctx, h, r)
}

type vzCommittedHeaderStore struct{ vzStores }

func (s vzCommittedHeaderStore) SaveCommittedHeader(ctx context.Context, ch tmconsensus.CommittedHeader) error {
	if err := s.gate(ctx, "SaveCommittedHeader"); err != nil {
		return err
	}
	err := s.d.commit.SaveCommittedHeader(ctx, ch)
	if err == nil {
		s.d.commits[ch.Header.Height] = append(s.d.commits[ch.Header.Height], string(ch.Header.Hash))
		s.d.commitCH[ch.Header.Height] = ch
		s.d.commitDigest[ch.Header.Height] = vzCommittedHeaderDigest(ch)
		s.nd.w.onCommittedHeaderSaved(s.nd, ch)
	}
	return err
}
func (s vzCommittedHeaderStore) LoadCommittedHeader(ctx context.Context, h uint64) (tmconsensus.CommittedHeader, error) {
	return s.d.commit.LoadCommittedHeader(ctx, h)
}

type vzFinalizationStore struct{ vzStores }

func (s vzFinalizationStore) SaveFinalization(ctx context.Context, h uint64, r uint32, hash string, vs tmconsensus.ValidatorSet, app string) error {
	if err := s.gate(ctx, "SaveFinalization"); err != nil {
		return err
	}
	err := s.d.fin.SaveFinalization(ctx, h, r, hash, vs, app)
	rec := fmt.Sprintf("%x|%x|%x.%x", hash, app, vs.PubKeyHash, vs.VotePowerHash)
	if err == nil {
		s.d.fins[h] = rec
	} else {
		s.d.finOverwriteAttempts++
		s.nd.w.onFinalizationRefused(s.nd, h, s.d.fins[h], rec, err)
	}
	return err
}
func (s vzFinalizationStore) LoadFinalizationByHeight(ctx context.Context, h uint64) (uint32, string, tmconsensus.ValidatorSet, string, error) {
	return s.d.fin.LoadFinalizationByHeight(ctx, h)
}

type vzMirrorStore struct{ vzStores }

func (s vzMirrorStore) SetNetworkHeightRound(ctx context.Context, vh uint64, vr uint32, ch uint64, cr uint32) error {
	if err := s.gate(ctx, "SetNetworkHeightRound"); err != nil {
		return err
	}
	err := s.d.mirror.SetNetworkHeightRound(ctx, vh, vr, ch, cr)
	if err == nil {
		s.d.nhr = append(s.d.nhr, [4]uint64{vh, uint64(vr), ch, uint64(cr)})
		s.nd.w.onNetworkHeightRound(s.nd, vh, vr, ch, cr)
	}
	return err
}
func (s vzMirrorStore) NetworkHeightRound(ctx context.Context) (uint64, uint32, uint64, uint32, error) {
	return s.d.mirror.NetworkHeightRound(ctx)
}

type vzRoundStore struct{ vzStores }

func (s vzRoundStore) SaveRoundProposedHeader(ctx context.Context, ph tmconsensus.ProposedHeader) error {
	if err := s.gate(ctx, "SaveRoundProposedHeader"); err != nil {
		return err
	}
	return s.d.round.SaveRoundProposedHeader(ctx, ph)
}
func (s vzRoundStore) SaveRoundReplayedHeader(ctx context.Context, h tmconsensus.Header) error {
	if err := s.gate(ctx, "SaveRoundReplayedHeader"); err != nil {
		return err
	}
	if s.d.replayedSaved == nil {
		s.d.replayedSaved = map[string]uint64{}
	}
	s.d.replayedSaved[string(h.Hash)] = h.Height
	return s.d.round.SaveRoundReplayedHeader(ctx, h)
}
func (s vzRoundStore) OverwriteRoundPrevoteProofs(ctx context.Context, h uint64, r uint32, p tmconsensus.SparseSignatureCollection) error {
	if err := s.gate(ctx, "OverwriteRoundPrevoteProofs"); err != nil {
		return err
	}
	s.nd.w.onVotesStored(s.nd, "prevote", h, r, p)
	return s.d.round.OverwriteRoundPrevoteProofs(ctx, h, r, p)
}
func (s vzRoundStore) OverwriteRoundPrecommitProofs(ctx context.Context, h uint64, r uint32, p tmconsensus.SparseSignatureCollection) error {
	if err := s.gate(ctx, "OverwriteRoundPrecommitProofs"); err != nil {
		return err
	}
	s.nd.w.onVotesStored(s.nd, "precommit", h, r, p)
	return s.d.round.OverwriteRoundPrecommitProofs(ctx, h, r, p)
}
func (s vzRoundStore) LoadRoundState(ctx context.Context, h uint64, r uint32) ([]tmconsensus.ProposedHeader, tmconsensus.SparseSignatureCollection, tmconsensus.SparseSignatureCollection, error) {
	phs, pv, pc, err := s.d.round.LoadRoundState(ctx, h, r)
	if len(phs) > 1 {
		// The in-memory round store returns the proposed headers of a round in map iteration order.
		// That order is the simulator's to decide: canonical order first, then a seeded rotation.
		sort.SliceStable(phs, func(i, j int) bool {
			if c := bytes.Compare(phs[i].Header.Hash, phs[j].Header.Hash); c != 0 {
				return c < 0
			}
			return bytes.Compare(phs[i].Signature, phs[j].Signature) < 0
		})
		s.nd.w.s.ParkID(s.nd.ident(), "store", "LoadRoundState:order")
		k := s.nd.w.s.Choose("ph-load-order", len(phs))
		phs = append(append([]tmconsensus.ProposedHeader(nil), phs[k:]...), phs[:k]...)
	}
	return phs, pv, pc, err
}

type vzStateMachineStore struct{ vzStores }

func (s vzStateMachineStore) SetStateMachineHeightRound(ctx context.Context, h uint64, r uint32) error {
	if err := s.gate(ctx, "SetStateMachineHeightRound"); err != nil {
		return err
	}
	return s.d.sm.SetStateMachineHeightRound(ctx, h, r)
}
func (s vzStateMachineStore) StateMachineHeightRound(ctx context.Context) (uint64, uint32, error) {
	return s.d.sm.StateMachineHeightRound(ctx)
}

type vzValidatorStore struct{ vzStores }

func (s vzValidatorStore) SavePubKeys(ctx context.Context, k []gcrypto.PubKey) (string, error) {
	if err := s.gate(ctx, "SavePubKeys"); err != nil {
		return "", err
	}
	return s.d.val.SavePubKeys(ctx, k)
}
func (s vzValidatorStore) SaveVotePowers(ctx context.Context, p []uint64) (string, error) {
	if err := s.gate(ctx, "SaveVotePowers"); err != nil {
		return "", err
	}
	return s.d.val.SaveVotePowers(ctx, p)
}
func (s vzValidatorStore) LoadPubKeys(ctx context.Context, h string) ([]gcrypto.PubKey, error) {
	return s.d.val.LoadPubKeys(ctx, h)
}
func (s vzValidatorStore) LoadVotePowers(ctx context.Context, h string) ([]uint64, error) {
	return s.d.val.LoadVotePowers(ctx, h)
}
func (s vzValidatorStore) LoadValidators(ctx context.Context, kh, ph string) ([]tmconsensus.Validator, error) {
	return s.d.val.LoadValidators(ctx, kh, ph)
}

// vzCommittedHeaderDigest renders a committed header's identity and proof as a value.
func vzCommittedHeaderDigest(ch tmconsensus.CommittedHeader) string {
	var hashes []string
	for h := range ch.Proof.Proofs {
		hashes = append(hashes, h)
	}
	sort.Strings(hashes)
	out := fmt.Sprintf("%x|r%d|%x", ch.Header.Hash, ch.Proof.Round, ch.Proof.PubKeyHash)
	for _, h := range hashes {
		out += fmt.Sprintf("|%x:", h)
		for _, sg := range ch.Proof.Proofs[h] {
			out += fmt.Sprintf("%x=%x,", sg.KeyID, sg.Sig)
		}
	}
	return out
}
