//go:build verif

package tmengine

import (
	"testing"

	"github.com/gordian-engine/gordian/internal/vsimcore"
)

var vzHarnesses = map[string]vsimcore.Harness{}

func TestVsimWorker(t *testing.T) {
	vsimcore.WorkerMain(t, vzHarnesses)
}
