//go:build verif

package tmengine

// H-NET: 4-7 real engines, real gossip strategy and codec, reference lock-respecting strategy,
// Byzantine validators (< 1/3 of the power: amoral strategy + network-level equivocation with
// their keys), delay/reorder/duplication/replay/corruption/partitions/stalls/crash-restart.

import (
	"context"
	"fmt"
	"strings"

	"github.com/gordian-engine/gordian/internal/vsimcore"
)

func init() { vzHarnesses["net"] = runNet }

func vzOracleSet(p vsimcore.Params) map[string]bool {
	m := map[string]bool{}
	for _, o := range strings.Split(p.Str("oracles", ""), ",") {
		if o != "" {
			m[o] = true
		}
	}
	return m
}

func runNet(s *vsimcore.Sim, p vsimcore.Params) vsimcore.RunInfo {
	var info vsimcore.RunInfo
	cfg := vzConfig{oracles: vzOracleSet(p), initialHeight: 1, maxSteps: p.Int("max_steps", 12000)}
	cfg.nVal = p.Int("min_nodes", 4) + s.Choose("nodes", p.Int("max_nodes", 6)-p.Int("min_nodes", 4)+1)
	cfg.heights = uint64(p.Int("min_heights", 2) + s.Choose("heights", 3))
	if s.Pct("initial-height", 25) {
		cfg.initialHeight = uint64(2 + s.Choose("ih", 40))
	}
	// power distribution
	cfg.powers = make([]uint64, cfg.nVal)
	switch s.Choose("powers", 4) {
	case 0:
		for i := range cfg.powers {
			cfg.powers[i] = 100
		}
	case 1:
		for i := range cfg.powers {
			cfg.powers[i] = uint64(100000 - i)
		}
	case 2:
		for i := range cfg.powers {
			cfg.powers[i] = uint64(10 + 7*((i*5)%4))
		}
	case 3:
		for i := range cfg.powers {
			cfg.powers[i] = uint64(1 + i)
		}
	}
	// Byzantine validators: the last ones, as long as they stay below one third
	var total, byzPow uint64
	for _, x := range cfg.powers {
		total += x
	}
	maxByz := p.Int("max_byz", 2)
	if maxByz > 0 {
		want := s.Choose("byz", maxByz+1)
		for i := cfg.nVal - 1; i >= 0 && cfg.nByz < want; i-- {
			if 3*(byzPow+cfg.powers[i]) < total {
				byzPow += cfg.powers[i]
				cfg.nByz++
			} else {
				break
			}
		}
	}
	cfg.rotate = p.Bool("rotate", false) && s.Pct("rotate", 60)
	if cfg.rotate && p.Bool("surge", false) && s.Pct("surge", 50) {
		cfg.surge = true
		cfg.rotatePowersOnly = s.Pct("surge-same-keys", 70)
	}
	cfg.dropDupMapper = s.Pct("dropdup-mapper", 50)
	// fault kinds enabled in this run (swarm)
	switch p.Str("faults", "reorder") {
	case "all":
		if s.Pct("f-dup", 60) {
			cfg.rDup, cfg.rReplay = 5+s.Choose("r", 20), 1
		}
		if s.Pct("f-corrupt", 30) {
			cfg.rCorrupt = 2 + s.Choose("r", 8)
		}
		if s.Pct("f-partition", 40) {
			cfg.rPartition = 1 + s.Choose("r", 4)
		}
		if s.Pct("f-stall", 30) {
			cfg.rStall = 1 + s.Choose("r", 3)
		}
		if s.Pct("f-early-timer", 50) {
			cfg.rEarlyTimer = 2 + s.Choose("r", 10)
		}
		if p.Bool("crashes", false) && s.Pct("f-crash", 50) {
			cfg.rCrash = 1 + s.Choose("r", 2)
			cfg.parkStores = true
		}
		if p.Bool("recover", false) && s.Pct("f-starve", 40) {
			cfg.rStarve = 1 + s.Choose("r", 3)
		}
		if cfg.nByz > 0 && s.Pct("f-equivocate", 70) {
			cfg.rEquivocate = 100 + s.Choose("r", 400)
		}
	case "reorder":
		if s.Pct("f-early-timer", 30) {
			cfg.rEarlyTimer = 2
		}
	}
	if cfg.oracles["C11"] {
		cfg.rLull = []int{0, 6, 12, 25}[s.Choose("lull-rate", 4)]
	}
	if p.Bool("recover", false) {
		cfg.netRecover = s.Pct("recover", 75)
		cfg.byzProposals = cfg.nByz > 0 && s.Pct("byz-proposals", 60)
	}
	if pace := p.Str("pace", ""); pace == "calm" || (pace == "mixed" && s.Pct("calm-pace", 70)) {
		// fault rates at which most runs make real progress between faults: a round of six nodes with
		// parked store writes is about a thousand scheduler steps, so "per thousand steps" is "per round"
		if cfg.rEarlyTimer > 0 {
			cfg.rEarlyTimer = 1 + s.Choose("r-calm", 2)
		}
		if cfg.rEquivocate > 0 {
			cfg.rEquivocate = 10 + s.Choose("r-calm", 60)
		}
		if cfg.rDup > 0 {
			cfg.rDup = 2 + s.Choose("r-calm", 8)
		}
		cfg.progressWindow = cfg.maxSteps / 2
	}
	w := newVzWorld(s, cfg)
	w.replayEnabled = cfg.netRecover
	stalled := false
	fill := func() {
		maxFin := uint64(0)
		for h := range w.orc.finalized {
			if h > maxFin {
				maxFin = h
			}
		}
		reached := 0
		if maxFin >= cfg.initialHeight {
			reached = int(maxFin - cfg.initialHeight + 1)
		}
		if stalled {
			s.Probe("protocol_stalled_before_target")
		}
		if s.Steps >= cfg.maxSteps {
			s.Probe("step_cap_reached")
		}
		nFaults := 0
		for _, v := range s.Faults {
			nFaults += v
		}
		info.Nontrivial = reached >= 1
		info.Extra = map[string]int{"heights_finalized": reached}
		info.States = []string{fmt.Sprintf("n%d/b%d/h%d/f%d/st%t", cfg.nVal, cfg.nByz, reached, min(nFaults, 5), stalled)}
		info.Sample = map[string]any{"harness": "net", "validators": cfg.nVal, "byzantine": cfg.nByz, "powers": cfg.powers, "initial_height": cfg.initialHeight,
			"target_heights": cfg.heights, "heights_finalized": reached, "steps": s.Steps, "faults": s.Faults, "first_events": w.notes}
	}
	s.Bubble(func() {
		w.rootCtx, w.rootCancel = context.WithCancel(context.Background())
		w.installHooks()
		defer w.removeHooks()
		for i := 0; i < cfg.nVal; i++ {
			w.addNode(i, i >= cfg.nVal-cfg.nByz)
		}
		for _, nd := range w.nodes {
			w.start(nd)
		}
		target := cfg.initialHeight + cfg.heights - 1
		done := func() bool {
			w.mu.Lock()
			defer w.mu.Unlock()
			for _, nd := range w.nodes {
				if nd.byz {
					continue
				}
				if nd.fin[target] == "" {
					return false
				}
			}
			return true
		}
		stalled = w.run(done, w.byzActions)
		w.finalChecks()
		info.SimNs = int64(s.SimTime())
		fill()
		s.Checkpoint(info)
		s.Freeze()
		w.shutdown()
	})
	fill()
	return info
}
