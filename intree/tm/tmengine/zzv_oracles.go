//go:build verif

package tmengine

// Oracles of the engine harnesses. Each oracle is stated on observable effects named by one
// property and is only active when that property's id is in cfg.oracles.

import (
	"bytes"
	"context"
	"crypto/ed25519"
	"encoding/binary"
	"fmt"
	"math/big"
	"sort"
	"strings"
	"sync"

	"github.com/bits-and-blooms/bitset"
	"github.com/gordian-engine/gordian/gcrypto"
	"github.com/gordian-engine/gordian/tm/tmcodec"
	"github.com/gordian-engine/gordian/tm/tmconsensus"
	"github.com/gordian-engine/gordian/tm/tmdriver"
	"github.com/gordian-engine/gordian/tm/tmengine/internal/tmeil"
	"github.com/gordian-engine/gordian/tm/tmengine/tmelink"
)

type vzOracles struct {
	mu sync.Mutex
	w  *vzWorld
	on map[string]bool

	// the chain as the correct nodes finalized it (C03)
	finalized          map[uint64]string
	gossipVotes        map[string]map[string]map[uint]bool // node incarnation/h/r/kind -> target -> signers, from every view handed to gossip
	gossipPos          map[string][2]uint64                // node incarnation -> height/round of the last voting view handed to gossip
	maxVoting          map[int][3]uint64          // node -> highest voting height/round seen in a view handed to gossip, and the incarnation that showed it
	honestPH           map[string]bool            // hashes of proposed headers authored by correct validators (C07 completeness)
	enterPHs           map[string]map[string]bool // node incarnation/h/r -> hashes of the proposed headers in the view the state machine entered the round with
	committedByCorrect map[uint64]string // first hash a correct node recorded as committed, per height (H-NET)

	// what the chain prescribes as validator set per height (C01, C07): height -> set
	prescribed map[uint64]tmconsensus.ValidatorSet

	// C11: last view per consumer/node/height/round
	lastView map[string]vzViewDigest

	commitsSeen int

	// H-NODE: the chain as the omnipotent environment authored it (height -> hash)
	advChain map[uint64]string

	// C11: views as they were handed to consumers (the consumer's own value: maps are shared with it),
	// re-checked later: a delivered view must never change (a missing clone shows up as a change)
	delivered []vzDeliveredView

	// C10: what was durable when a node crashed, per node index
	crashSnap map[int]*vzCrashSnap
	fetchPrev map[string]map[string]uint64          // node incarnation/height/round -> kind/hash -> power in the previous voting view
	fetchReq  map[string]bool                       // node incarnation/height/hash -> the mirror has asked for that proposed header
	smEntered map[string][2]uint64                  // node incarnation -> height/round of the state machine's last round entrance seen by the kernel
	smKnown   map[string]map[string]bool            // node incarnation/height/round -> votes the state machine has been handed for that round
	offered   map[int]map[[2]uint64]map[string]bool // node -> round -> proposals offered to the strategy (current incarnation)
}

// vzCrashSnap is the durable state of a node at the moment its process died.
type vzCrashSnap struct {
	inc          int
	nhr          [4]uint64
	hasNHR       bool
	commits      map[uint64]string
	fins         map[uint64]string
	rounds       map[[2]uint64]*vzViewDigest // stored proposals and votes of the voting and committing rounds
	checked      map[[2]uint64]bool
	offered      map[[2]uint64]map[string]bool // proposals the strategy had been offered per round before the stop
	checkedStrat map[[2]uint64]bool
}

type vzDeliveredView struct {
	node     *vzNode
	inc      int
	consumer string
	v        *tmconsensus.VersionedRoundView
	digest   string
	step     int
}

// vzViewContentDigest renders everything a consumer can read from a view as a value.
func vzViewContentDigest(v *tmconsensus.VersionedRoundView) string {
	var parts []string
	for _, ph := range v.ProposedHeaders {
		parts = append(parts, fmt.Sprintf("ph:%x", ph.Header.Hash))
	}
	var bs bitset.BitSet
	for kind, m := range map[string]map[string]gcrypto.CommonMessageSignatureProof{"prevote": v.PrevoteProofs, "precommit": v.PrecommitProofs} {
		for hash, p := range m {
			p.SignatureBitSet(&bs)
			parts = append(parts, fmt.Sprintf("%s:%x:%s", kind, hash, bs.String()))
		}
	}
	for h, l := range v.PrevCommitProof.Proofs {
		parts = append(parts, fmt.Sprintf("pcp:%x:%d", h, len(l)))
	}
	sort.Strings(parts)
	return fmt.Sprintf("%d/%d v%d pv%d pc%d tot%d/%d %s", v.Height, v.Round, v.Version, v.PrevoteVersion, v.PrecommitVersion,
		v.VoteSummary.TotalPrevotePower, v.VoteSummary.TotalPrecommitPower, strings.Join(parts, ","))
}

type vzViewDigest struct {
	version uint32
	phs     map[string]bool
	votes   map[string]bool // kind/hash/signer
}

func (o *vzOracles) init(w *vzWorld) {
	o.w = w
	o.on = w.cfg.oracles
	if o.on == nil {
		o.on = map[string]bool{}
	}
	o.finalized = map[uint64]string{}
	o.prescribed = map[uint64]tmconsensus.ValidatorSet{}
	o.lastView = map[string]vzViewDigest{}
	o.advChain = map[uint64]string{}
	o.crashSnap = map[int]*vzCrashSnap{}
	o.fetchReq = map[string]bool{}
	o.fetchPrev = map[string]map[string]uint64{}
	o.smEntered = map[string][2]uint64{}
	o.smKnown = map[string]map[string]bool{}
	o.offered = map[int]map[[2]uint64]map[string]bool{}
}

func (o *vzOracles) violate(prop, key, f string, a ...any) {
	if !o.on[prop] {
		return
	}
	o.w.s.Violate(prop+"/"+key, f, a...)
}

// ---- store side hooks (called from the wrappers)

func (w *vzWorld) onActionSaved(nd *vzNode, kind string, h uint64, r uint32, sig string, err error) {
	w.orc.onActionSaved(nd, kind, h, r, sig, err)
}
func (w *vzWorld) onCommittedHeaderSaved(nd *vzNode, ch tmconsensus.CommittedHeader) {
	w.orc.onCommittedHeaderSaved(nd, ch)
}
func (w *vzWorld) onFinalizationRefused(nd *vzNode, h uint64, have, got string, err error) {
	if have != got {
		w.orc.violate("C10", "finalization-recomputed-differently", "%s tried to save a different finalization for height %d (stored %s, offered %s): %v", nd.ident(), h, have, got, err)
		return
	}
	// the same content offered again is refused by the store and changes nothing; what the engine does
	// with the refusal is judged by the recovery oracle (C10 not-recovered) and by C09
	w.s.Probe("finalization_offered_again_same_content")
}
func (w *vzWorld) onNetworkHeightRound(nd *vzNode, vh uint64, vr uint32, ch uint64, cr uint32) {
	w.orc.onNetworkHeightRound(nd, vh, vr, ch, cr)
}
func (w *vzWorld) onVotesStored(nd *vzNode, kind string, h uint64, r uint32, c tmconsensus.SparseSignatureCollection) {
	if w.s.Stopped() {
		return
	}
	w.orc.mu.Lock()
	defer w.orc.mu.Unlock()
	for hash, sigs := range c.BlockSignatures {
		if len(sigs) == 0 {
			w.orc.violate("C05", "empty-proof-entry-stored/"+kind, "%s wrote %s proofs for %d/%d to the round store with an entry for %x that has no signature", nd.ident(), kind, h, r, hash)
		}
	}
	w.orc.checkSparseAuthentic(nd, "round-store", kind, h, r, c.PubKeyHash, c.BlockSignatures)
}

func (o *vzOracles) onActionSaved(nd *vzNode, kind string, h uint64, r uint32, sig string, err error) {
	if err != nil {
		return
	}
	o.w.mu.Lock()
	c := nd.lastSigned[fmt.Sprintf("%s/%d/%d", kind, h, r)]
	o.w.mu.Unlock()
	o.signatureLeft(nd, kind, h, r, c)
}

// ---- C04: committed chain immutable, gap-free, hash-linked; position monotone

func (o *vzOracles) onCommittedHeaderSaved(nd *vzNode, ch tmconsensus.CommittedHeader) {
	if o.w.s.Stopped() {
		return
	}
	o.mu.Lock()
	defer o.mu.Unlock()
	o.commitsSeen++
	d := nd.disk
	h := ch.Header.Height
	distinct := map[string]bool{}
	for _, x := range d.commits[h] {
		distinct[x] = true
	}
	if len(distinct) > 1 {
		o.violate("C04", "committed-hash-changed", "%s: committed header store holds a different hash for height %d than before: %x", nd.ident(), h, d.commits[h])
	}
	init := o.w.cfg.initialHeight
	if h != init {
		if _, ok := d.commits[h-1]; !ok {
			o.violate("C04", "gap", "%s: committed height %d saved while height %d is not committed", nd.ident(), h, h-1)
		} else if prev := d.commits[h-1]; !bytes.Equal(ch.Header.PrevBlockHash, []byte(prev[len(prev)-1])) {
			key := "not-hash-linked"
			if o.w.beyondModel {
				// validators holding at least one third of the power have signed two targets in one round:
				// two valid certificates for one height can exist; reported under its own class
				key = "not-hash-linked/one-third-equivocated"
			}
			o.violate("C04", key, "%s: committed header %d names predecessor %x but height %d is committed with hash %x", nd.ident(), h, ch.Header.PrevBlockHash, h-1, prev[len(prev)-1])
		}
	}
	o.checkCommitCertificate(nd, "committed-header-store", ch.Header, ch.Proof)
	o.checkValidatorSetOfHeader(nd, ch.Header)
	// C03, one step before finalization: the committed header stores of correct nodes agree
	if o.w.adv == nil && !nd.byz {
		if o.committedByCorrect == nil {
			o.committedByCorrect = map[uint64]string{}
		}
		if have, ok := o.committedByCorrect[h]; ok && have != string(ch.Header.Hash) {
			o.violate("C03", "committed-disagreement", "%s recorded %x as committed at height %d but another correct node recorded %x", nd.ident(), ch.Header.Hash, h, have)
		} else {
			o.committedByCorrect[h] = string(ch.Header.Hash)
		}
	}
}

func (o *vzOracles) onNetworkHeightRound(nd *vzNode, vh uint64, vr uint32, ch uint64, cr uint32) {
	if o.w.s.Stopped() {
		return
	}
	o.mu.Lock()
	defer o.mu.Unlock()
	o.onRestartPosition(nd, vh, vr, ch, cr)
	l := nd.disk.nhr
	if len(l) >= 2 {
		p := l[len(l)-2]
		if vh < p[0] || (vh == p[0] && uint64(vr) < p[1]) {
			o.violate("C04", "voting-position-regressed", "%s: network height/round went from %d/%d to %d/%d", nd.ident(), p[0], p[1], vh, vr)
		}
	}
	if ch != 0 && vh != ch+1 {
		o.violate("C04", "voting-not-committing-plus-one", "%s: voting height %d, committing height %d", nd.ident(), vh, ch)
	}
}

// ---- C03: agreement and contiguity

func (o *vzOracles) onFinalize(nd *vzNode, fr tmdriver.FinalizeBlockRequest) {
	if o.w.s.Stopped() {
		return
	}
	o.mu.Lock()
	defer o.mu.Unlock()
	h := fr.Header.Height
	hash := string(fr.Header.Hash)
	o.w.s.Logf("%s FINALIZE %d %x", nd.ident(), h, trunc(hash))
	o.w.progressAt = o.w.s.Steps + 1
	o.w.mu.Lock()
	nd.fin[h] = hash
	seq := nd.finSeq
	nd.finSeq = append(nd.finSeq, h)
	o.w.mu.Unlock()
	if nd.byz {
		return
	}
	if have, ok := o.finalized[h]; ok && have != hash {
		o.violate("C03", "disagreement", "%s finalized %x at height %d but another correct node finalized %x", nd.ident(), hash, h, have)
	} else {
		o.finalized[h] = hash
	}
	if len(seq) == 0 {
		if h != o.w.cfg.initialHeight {
			o.violate("C03", "not-contiguous", "%s: first finalized height is %d, initial height %d", nd.ident(), h, o.w.cfg.initialHeight)
		}
	} else if last := seq[len(seq)-1]; h != last+1 && !(h == last && nd.inc > 1) {
		o.violate("C03", "not-contiguous", "%s finalized height %d after height %d (incarnation %d)", nd.ident(), h, last, nd.inc)
	}
	o.checkValidatorSetOfHeader(nd, fr.Header)
	// the chain prescribes the validators of h+1 (C01/C07 bookkeeping). The lists are taken only
	// from a header whose lists hash to the hashes its block hash covers, and the first one wins
	// (a node that was fed an altered list must not redefine the chain for the other oracles).
	if _, ok := o.prescribed[h+1]; !ok {
		nvs := fr.Header.NextValidatorSet
		if len(nvs.Validators) > 0 {
			kh, _ := o.w.fx.HashScheme.PubKeys(tmconsensus.ValidatorsToPubKeys(nvs.Validators))
			ph, _ := o.w.fx.HashScheme.VotePowers(tmconsensus.ValidatorsToVotePowers(nvs.Validators))
			if bytes.Equal(kh, nvs.PubKeyHash) && bytes.Equal(ph, nvs.VotePowerHash) {
				o.prescribed[h+1] = nvs
			}
		}
	}
	// C01: the driver is asked to finalize only a block the node holds a certificate for
	o.checkFinalizeHasCertificate(nd, fr)
}

// ---- C02: the local validator signs at most one message per kind and round

func (o *vzOracles) onSign(nd *vzNode, kind string, h uint64, r uint32, content []byte) {
	if o.w.s.Stopped() {
		return
	}
	// A signature counts once it is in the action store or handed to the mirror: one that the signer
	// produced right before the process stopped, and that was neither stored nor released, has never
	// existed as far as anybody can tell.
	k := fmt.Sprintf("%s/%d/%d", kind, h, r)
	o.w.mu.Lock()
	if nd.lastSigned == nil {
		nd.lastSigned = map[string]string{}
	}
	nd.lastSigned[k] = string(content)
	o.w.mu.Unlock()
	o.w.s.Logf("%s signs %s %d/%d", nd.ident(), kind, h, r)
}

// signatureLeft: the signature over content has been stored or released.
func (o *vzOracles) signatureLeft(nd *vzNode, kind string, h uint64, r uint32, content string) {
	if o.w.s.Stopped() || content == "" {
		return
	}
	o.mu.Lock()
	defer o.mu.Unlock()
	k := fmt.Sprintf("%s/%d/%d", kind, h, r)
	o.w.mu.Lock()
	if nd.signed[k] == nil {
		nd.signed[k] = map[string]bool{}
	}
	nd.signed[k][content] = true
	n := len(nd.signed[k])
	o.w.mu.Unlock()
	if n > 1 && !nd.byz {
		when := "same-process"
		if nd.inc > 1 {
			when = "after-restart"
		}
		o.violate("C02", "double-sign/"+kind+"/"+when, "%s (incarnation %d) signed %d different %s messages for height %d round %d", nd.ident(), nd.inc, n, kind, h, r)
	}
}

// ---- C09: silently dead components

func (o *vzOracles) afterStep() {
	if o.w.s.Stopped() {
		return
	}
	o.mu.Lock()
	defer o.mu.Unlock()
	w := o.w
	for i := range o.delivered {
		d := &o.delivered[i]
		if d.node.inc != d.inc || d.digest == "" {
			continue
		}
		if now := vzViewContentDigest(d.v); now != d.digest {
			o.violate("C11", "view-changed-after-delivery/"+strings.SplitN(d.consumer, "-", 2)[0], "%s: the view handed to %s at step %d has changed since (it shares memory with a view the kernel keeps writing to): was %s, now %s", d.node.ident(), d.consumer, d.step, d.digest, now)
			d.digest = ""
		}
	}
	for _, nd := range w.nodes {
		w.mu.Lock()
		e, dead, down := nd.e, nd.dead, nd.down
		w.mu.Unlock()
		if e == nil || dead || down || nd.ctx.Err() != nil {
			continue
		}
		if e.sm != nil {
			select {
			case <-e.sm.VzDone():
				w.mu.Lock()
				cause := w.lastErr[nd.ident()]
				w.mu.Unlock()
				o.violate("C09", "statemachine-exited/"+vzSkeleton(cause), "%s (incarnation %d): the state machine goroutine has exited while the engine is running (it no longer serves the mirror); node position %d/%d; last error logged: %q", nd.ident(), nd.inc, nd.curH, nd.curR, cause)
			default:
			}
		}
		if e.m != nil {
			select {
			case <-e.m.VzDone():
				o.violate("C09", "mirror-exited", "%s: the mirror kernel goroutine has exited while the engine is running", nd.ident())
			default:
			}
		}
	}
}

func (o *vzOracles) onNewError(nd *vzNode, err error) {
	if o.w.s.Stopped() {
		return
	}
	o.mu.Lock()
	defer o.mu.Unlock()
	if nd.ctx.Err() != nil {
		return
	}
	if nd.inc > 1 {
		o.violate("C10", "restart-failed", "%s: tmengine.New on the same stores returned: %v", nd.ident(), err)
	} else {
		o.violate("C09", "new-failed", "%s: tmengine.New returned: %v", nd.ident(), err)
	}
}

// ---- hooks that later oracles fill in

func (o *vzOracles) onEnterRound(nd *vzNode, rv tmconsensus.RoundView) {
	if o.w.s.Stopped() {
		return
	}
	o.mu.Lock()
	defer o.mu.Unlock()
	if !nd.byz {
		if o.enterPHs == nil {
			o.enterPHs = map[string]map[string]bool{}
		}
		m := map[string]bool{}
		for _, ph := range rv.ProposedHeaders {
			m[string(ph.Header.Hash)] = true
		}
		o.enterPHs[fmt.Sprintf("%s/%d/%d", nd.ident(), rv.Height, rv.Round)] = m
		o.checkViewValidators(nd, "strategy.EnterRound", rv.Height, rv.ValidatorSet)
		// the round view the state machine entered the round with (the mirror's answer to its entrance)
		o.noteSMKnown(nd, rv.Height, rv.Round, rv.PrevoteProofs, rv.PrecommitProofs)
	}
}

func (o *vzOracles) noteSMKnown(nd *vzNode, h uint64, r uint32, pv, pc map[string]gcrypto.CommonMessageSignatureProof) {
	if !o.on["C11"] {
		return
	}
	key := fmt.Sprintf("%s/%d/%d", nd.ident(), h, r)
	m := o.smKnown[key]
	if m == nil {
		m = map[string]bool{}
		o.smKnown[key] = m
	}
	var bs bitset.BitSet
	for kind, pm := range map[string]map[string]gcrypto.CommonMessageSignatureProof{"prevote": pv, "precommit": pc} {
		for hash, p := range pm {
			p.SignatureBitSet(&bs)
			for u, ok := bs.NextSet(0); ok; u, ok = bs.NextSet(u + 1) {
				m[fmt.Sprintf("%s/%x/%d", kind, hash, u)] = true
			}
		}
	}
}
func (o *vzOracles) onTimerStart(nd *vzNode, kind string, h uint64, r uint32)  {}
func (o *vzOracles) onTimerCancel(nd *vzNode, kind string, h uint64, r uint32) {}
func (o *vzOracles) onWireFrame(from *vzNode, cm tmcodec.ConsensusMessage, b []byte) {
	if o.w.s.Stopped() {
		return
	}
	o.mu.Lock()
	defer o.mu.Unlock()
	// C14 monitor: the frame must decode to the same variant and content
	var back tmcodec.ConsensusMessage
	if err := o.w.codec.UnmarshalConsensusMessage(b, &back); err != nil {
		o.violate("C14", "own-frame-undecodable", "%s sent a frame that does not decode: %v", from.ident(), err)
		return
	}
	switch {
	case cm.ProposedHeader != nil:
		if back.ProposedHeader == nil || !bytes.Equal(back.ProposedHeader.Header.Hash, cm.ProposedHeader.Header.Hash) || !bytes.Equal(back.ProposedHeader.Signature, cm.ProposedHeader.Signature) {
			o.violate("C14", "roundtrip/wire", "proposed header frame decoded differently")
		}
	case cm.PrevoteProof != nil:
		if back.PrevoteProof == nil || back.PrevoteProof.Height != cm.PrevoteProof.Height || back.PrevoteProof.Round != cm.PrevoteProof.Round || len(back.PrevoteProof.Proofs) != len(cm.PrevoteProof.Proofs) {
			o.violate("C14", "roundtrip/wire", "prevote frame decoded differently")
		}
	case cm.PrecommitProof != nil:
		if back.PrecommitProof == nil || back.PrecommitProof.Height != cm.PrecommitProof.Height || back.PrecommitProof.Round != cm.PrecommitProof.Round || len(back.PrecommitProof.Proofs) != len(cm.PrecommitProof.Proofs) {
			o.violate("C14", "roundtrip/wire", "precommit frame decoded differently")
		}
	}
	// C05 oracle A on everything a correct node hands to gossip
	if !from.byz {
		if cm.PrevoteProof != nil {
			o.checkSparseAuthentic(from, "gossip", "prevote", cm.PrevoteProof.Height, cm.PrevoteProof.Round, []byte(cm.PrevoteProof.PubKeyHash), cm.PrevoteProof.Proofs)
		}
		if cm.PrecommitProof != nil {
			o.checkSparseAuthentic(from, "gossip", "precommit", cm.PrecommitProof.Height, cm.PrecommitProof.Round, []byte(cm.PrecommitProof.PubKeyHash), cm.PrecommitProof.Proofs)
		}
	}
}
func (o *vzOracles) onDecoded(nd *vzNode, m *vzMsg, cm tmcodec.ConsensusMessage) {}

// onHandled: what the environment expected of a message it forged (expectation "Cxx:name" =
// the message must not be reported as accepted).
func (o *vzOracles) onHandled(nd *vzNode, m *vzMsg, kind, result string) {
	if o.w.adv == nil || o.w.s.Stopped() {
		return
	}
	o.w.mu.Lock()
	exp := o.w.adv.expect[m.id]
	o.w.mu.Unlock()
	if i := strings.Index(exp, ":"); i > 0 && exp[0] == 'C' {
		if result == "Accepted" || result == "FutureVerified" {
			o.mu.Lock()
			o.violate(exp[:i], "accepted/"+exp[i+1:]+"/"+kind, "%s reported %s for a forged %s message (%s): m%d", nd.ident(), result, kind, exp[i+1:], m.id)
			o.mu.Unlock()
		}
	}
}

// onReplayUnanswered: the process stopped while it was handling the replay; whether it would have
// accepted it is unknown.
func (o *vzOracles) onReplayUnanswered(nd *vzNode, hdr tmconsensus.Header) {
	o.mu.Lock()
	defer o.mu.Unlock()
	if nd.disk.replayAccepted == nil {
		nd.disk.replayAccepted = map[string]bool{}
	}
	nd.disk.replayAccepted[string(hdr.Hash)] = true
}

func (o *vzOracles) onReplayResult(nd *vzNode, hdr tmconsensus.Header, proof tmconsensus.CommitProof, expect string, err error) {
	if o.w.s.Stopped() {
		return
	}
	o.mu.Lock()
	defer o.mu.Unlock()
	if err == nil {
		if nd.disk.replayAccepted == nil {
			nd.disk.replayAccepted = map[string]bool{}
		}
		nd.disk.replayAccepted[string(hdr.Hash)] = true
	}
	if err != nil {
		return
	}
	// accepted through header replay = a commit event (C01); the certificate the node holds is judged
	// where it records the commit (committed-header store, committing view), because an accepted
	// replay may complete precommits the node already had
	switch expect {
	case "foreign-replay":
		o.violate("C07", "replay-accepted/foreign-validator-set", "%s accepted a replayed header for height %d whose validator set is not the chain's", nd.ident(), hdr.Height)
	case "foreign-prev-replay":
		o.violate("C04", "replay-accepted/foreign-predecessor", "%s accepted a replayed header for height %d that names a predecessor other than the committed one", nd.ident(), hdr.Height)
	case "tampered-valset-replay":
		o.violate("C07", "replay-accepted/validator-list-tampered", "%s accepted a replayed header for height %d whose validator list does not match the validator hashes covered by its block hash", nd.ident(), hdr.Height)
	case "corrupt-replay":
		o.violate("C05", "replay-accepted/corrupt-signature", "%s accepted a replayed header for height %d although a certificate signature does not verify", nd.ident(), hdr.Height)
	}
}

// ---- C11 + C06 + C05 on views crossing the relays

func (o *vzOracles) onSMView(nd *vzNode, v tmeil.StateMachineRoundView) {
	if o.w.s.Stopped() {
		return
	}
	o.mu.Lock()
	defer o.mu.Unlock()
	if nd.byz {
		return
	}
	if v.VRV.Height > 0 {
		o.checkView(nd, "statemachine", &v.VRV)
		o.noteSMKnown(nd, v.VRV.Height, v.VRV.Round, v.VRV.PrevoteProofs, v.VRV.PrecommitProofs)
	}
	if v.JumpAheadRoundView != nil {
		o.checkView(nd, "statemachine-jump", v.JumpAheadRoundView)
		// A jump-ahead tells the state machine to move on to a later round. The mirror drops a pending
		// one when the state machine enters a round by itself, so the round named is always beyond the
		// round of the state machine's last entrance.
		if e, ok := o.smEntered[nd.ident()]; ok && o.on["C11"] {
			if j := v.JumpAheadRoundView; j.Height < e[0] || (j.Height == e[0] && uint64(j.Round) <= e[1]) {
				o.violate("C11", "stale-jump-ahead", "%s: the state machine, which had entered round %d/%d, was then sent a jump-ahead to round %d/%d (version %d)", nd.ident(), e[0], e[1], j.Height, j.Round, j.Version)
			}
		}
	}
	if v.CH != nil {
		o.checkCommitCertificate(nd, "statemachine-committed-header", v.CH.Header, v.CH.Proof)
	}
}

func (o *vzOracles) onGossipUpdate(nd *vzNode, u tmelink.NetworkViewUpdate) {
	if o.w.s.Stopped() {
		return
	}
	o.mu.Lock()
	defer o.mu.Unlock()
	if nd.byz {
		return
	}
	for name, v := range map[string]*tmconsensus.VersionedRoundView{"committing": u.Committing, "voting": u.Voting, "next": u.NextRound} {
		if v != nil {
			o.checkView(nd, "gossip-"+name, v)
			o.checkResumedView(nd, "gossip "+name, v)
		}
	}
	if u.Voting != nil {
		o.checkFetchThreshold(nd, u.Voting)
		// C04: the voting position a node shows never moves backwards, not across a restart either
		// (the kernel publishes a position only after it has persisted it)
		if o.on["C04"] {
			if o.maxVoting == nil {
				o.maxVoting = map[int][3]uint64{}
			}
			cur := [3]uint64{u.Voting.Height, uint64(u.Voting.Round), uint64(nd.inc)}
			if old, ok := o.maxVoting[nd.idx]; ok && (cur[0] < old[0] || (cur[0] == old[0] && cur[1] < old[1])) {
				key := "voting-position-regressed/view"
				if cur[2] != old[2] {
					key = "voting-position-regressed/across-restart"
				}
				o.violate("C04", key, "%s publishes voting position %d/%d after it (incarnation %d) had published %d/%d", nd.ident(), cur[0], cur[1], old[2], old[0], old[1])
			} else {
				o.maxVoting[nd.idx] = cur
			}
		}
	}
	if u.NilVotedRound != nil {
		o.checkViewContent(nd, "gossip-nilvoted", u.NilVotedRound)
	}
	if o.on["C11"] {
		for _, v := range []*tmconsensus.VersionedRoundView{u.Committing, u.Voting, u.NextRound, u.NilVotedRound} {
			if v != nil {
				o.noteGossipVotes(nd, v)
			}
		}
		if u.Voting != nil {
			o.checkRoundLeft(nd, u.Voting)
		}
	}
	if u.Committing != nil {
		o.checkCommittingViewHasCertificate(nd, u.Committing)
	}
}

// checkOwnVote (C10): a vote the restarted state machine hands to its mirror again (it was recorded in
// the action store before the stop) must still be that vote: its sign content is the sign bytes of its
// kind, height, round and target, and the signature verifies over it with the node's key. Otherwise
// the mirror drops it and the persisted vote is not present again.
func (o *vzOracles) checkOwnVote(nd *vzNode, kind string, h uint64, r uint32, target string, content, sig []byte) {
	if !o.on["C10"] || nd.byz || nd.inc < 2 || o.w.s.Stopped() {
		return
	}
	vt := tmconsensus.VoteTarget{Height: h, Round: r, BlockHash: target}
	var want []byte
	var err error
	if kind == "prevote" {
		want, err = tmconsensus.PrevoteSignBytes(vt, o.w.fx.SignatureScheme)
	} else {
		want, err = tmconsensus.PrecommitSignBytes(vt, o.w.fx.SignatureScheme)
	}
	if err != nil {
		return
	}
	pub := o.w.fx.PrivVals[nd.idx].Val.PubKey
	o.mu.Lock()
	defer o.mu.Unlock()
	if !bytes.Equal(want, content) || !pub.Verify(content, sig) {
		o.violate("C10", "recorded-vote-handed-over-unverifiable/"+kind, "%s (restarted) hands its mirror a %s for %d/%d target %x whose sign content is not that vote's sign bytes or whose signature does not verify: the vote it had persisted before the stop is not present again", nd.ident(), kind, h, r, trunc(target))
	}
}

// noteGossipVotes accumulates, per node incarnation, height and round, who has voted what according to
// everything the gossip strategy has been handed (voting, next-round, committing and nil-voted views).
func (o *vzOracles) noteGossipVotes(nd *vzNode, v *tmconsensus.VersionedRoundView) {
	if o.gossipVotes == nil {
		o.gossipVotes = map[string]map[string]map[uint]bool{}
	}
	var bs bitset.BitSet
	for kind, pm := range map[string]map[string]gcrypto.CommonMessageSignatureProof{"prevote": v.PrevoteProofs, "precommit": v.PrecommitProofs} {
		for hash, p := range pm {
			k := fmt.Sprintf("%s/%d/%d/%s", nd.ident(), v.Height, v.Round, kind)
			if o.gossipVotes[k] == nil {
				o.gossipVotes[k] = map[string]map[uint]bool{}
			}
			if o.gossipVotes[k][hash] == nil {
				o.gossipVotes[k][hash] = map[uint]bool{}
			}
			p.SignatureBitSet(&bs)
			for u, ok := bs.NextSet(0); ok; u, ok = bs.NextSet(u + 1) {
				o.gossipVotes[k][hash][u] = true
			}
		}
	}
}

// checkRoundLeft (C11): when the voting view handed to gossip moves to a later round of the same
// height, the votes that justify leaving the earlier round must have been handed to gossip by then:
// more than 2/3 nil precommits in it, or precommits from everybody in it (fully voted, no quorum), or at
// least 1/3 of the power voting in a later round (a skip). The precommits that end a round reach gossip
// in the round's last voting view or in the nil-voted-round snapshot.
func (o *vzOracles) checkRoundLeft(nd *vzNode, cur *tmconsensus.VersionedRoundView) {
	if o.gossipPos == nil {
		o.gossipPos = map[string][2]uint64{}
	}
	prev, seen := o.gossipPos[nd.ident()]
	o.gossipPos[nd.ident()] = [2]uint64{cur.Height, uint64(cur.Round)}
	if !seen || prev[0] != cur.Height || uint64(cur.Round) <= prev[1] {
		return
	}
	vals := cur.ValidatorSet.Validators
	var total uint64
	for _, v := range vals {
		total += v.Power
	}
	pow := func(set map[uint]bool) uint64 {
		var p uint64
		for i := range set {
			if int(i) < len(vals) {
				p += vals[i].Power
			}
		}
		return p
	}
	pc := o.gossipVotes[fmt.Sprintf("%s/%d/%d/precommit", nd.ident(), prev[0], prev[1])]
	all := map[uint]bool{}
	for _, set := range pc {
		for i := range set {
			all[i] = true
		}
	}
	if 3*pow(pc[""]) > 2*total || pow(all) == total {
		return
	}
	for k, m := range o.gossipVotes {
		var id, kind string
		var h, r uint64
		parts := strings.Split(k, "/")
		if len(parts) != 4 {
			continue
		}
		id, kind = parts[0], parts[3]
		fmt.Sscan(parts[1], &h)
		fmt.Sscan(parts[2], &r)
		_ = kind
		if id != nd.ident() || h != prev[0] || r <= prev[1] {
			continue
		}
		later := map[uint]bool{}
		for _, set := range m {
			for i := range set {
				later[i] = true
			}
		}
		if 3*pow(later) >= total {
			return
		}
	}
	o.violate("C11", "round-left-without-justifying-votes/gossip", "%s: the voting view handed to the gossip strategy moved from %d/%d to %d/%d, but nothing it has been handed justifies leaving %d/%d: nil precommits %d and all precommits %d of %d, no later round with a third of the power", nd.ident(), prev[0], prev[1], cur.Height, cur.Round, prev[0], prev[1], pow(pc[""]), pow(all), total)
}

// appSet is the validator set the application prescribes for height h: the genesis set for the
// first two heights, afterwards what the driver returned when it finalized h-2.
func (o *vzOracles) appSet(h uint64) tmconsensus.ValidatorSet {
	if h <= o.w.cfg.initialHeight+1 {
		return o.w.fx.ValSet()
	}
	vs, err := tmconsensus.NewValidatorSet(o.w.nextValidators(h-2), o.w.fx.HashScheme)
	if err != nil {
		panic(err)
	}
	return vs
}

// checkOwnProposal (C07): the header the local state machine proposes carries exactly the sets the
// driver returned (for h: at the finalization of h-2, for h+1: at the finalization of h-1).
func (o *vzOracles) checkOwnProposal(nd *vzNode, ph tmconsensus.ProposedHeader) {
	if !o.on["C07"] || nd.byz || o.w.s.Stopped() {
		return
	}
	h := ph.Header.Height
	if d := vzDiffValSet(o.appSet(h), ph.Header.ValidatorSet); d != "" {
		o.violate("C07", "own-proposal/validator-set", "%s proposed a header for height %d whose validator set differs from what the driver returned for that height in %s", nd.ident(), h, d)
	}
	if d := vzDiffValSet(o.appSet(h+1), ph.Header.NextValidatorSet); d != "" {
		o.violate("C07", "own-proposal/next-validator-set", "%s proposed a header for height %d whose next validator set differs from what the driver returned when finalizing height %d in %s", nd.ident(), h, h-1, d)
	}
}

// onStrategyAsked (C07): what the state machine lets its consensus strategy choose from. It filters
// the round's proposed headers by the validator sets it works with at that height: nothing with other
// sets may get through, and an honest proposal that was in the view it entered the round with must.
func (o *vzOracles) onStrategyAsked(nd *vzNode, kind string, h uint64, r uint32, phs []tmconsensus.ProposedHeader) {
	if !o.on["C07"] || nd.byz || o.w.s.Stopped() || h == 0 {
		return
	}
	o.mu.Lock()
	defer o.mu.Unlock()
	have := map[string]bool{}
	for _, ph := range phs {
		if ph.Header.Height != h {
			continue
		}
		have[string(ph.Header.Hash)] = true
		if d := vzDiffValSet(o.appSet(h), ph.Header.ValidatorSet); d != "" {
			o.violate("C07", "strategy-offered/other-validator-set", "%s: %s at %d/%d was offered proposed header %x whose validator set differs from the one the driver returned for that height in %s", nd.ident(), kind, h, r, trunc(string(ph.Header.Hash)), d)
		}
		if d := vzDiffValSet(o.appSet(h+1), ph.Header.NextValidatorSet); d != "" {
			o.violate("C07", "strategy-offered/other-next-validator-set", "%s: %s at %d/%d was offered proposed header %x whose next validator set differs from what the driver returned in %s", nd.ident(), kind, h, r, trunc(string(ph.Header.Hash)), d)
		}
	}
	var missing []string
	for hash := range o.enterPHs[fmt.Sprintf("%s/%d/%d", nd.ident(), h, r)] {
		if o.honestPH[hash] && !have[hash] {
			missing = append(missing, hash)
		}
	}
	sort.Strings(missing)
	for _, hash := range missing {
		o.violate("C07", "honest-proposal-withheld-from-strategy", "%s: %s at %d/%d was not offered the honest proposal %x although it was in the view the state machine entered the round with (it is filtered by the validator sets the state machine works with at that height)", nd.ident(), kind, h, r, trunc(hash))
	}
}

func (o *vzOracles) onSMAction(nd *vzNode, a tmeil.StateMachineRoundAction) {
	if len(a.PH.Header.Hash) > 0 {
		o.mu.Lock()
		if !nd.byz {
			if o.honestPH == nil {
				o.honestPH = map[string]bool{}
			}
			o.honestPH[string(a.PH.Header.Hash)] = true
		}
		o.checkOwnProposal(nd, a.PH)
		o.mu.Unlock()
	}
	// a vote handed to the mirror has been released, stored or not
	o.mu.Lock()
	e, ok := o.smEntered[nd.ident()]
	o.mu.Unlock()
	if !ok {
		return
	}
	if len(a.Prevote.Sig) > 0 && len(a.Prevote.SignContent) > 0 {
		o.signatureLeft(nd, "prevote", e[0], uint32(e[1]), string(a.Prevote.SignContent))
		o.checkOwnVote(nd, "prevote", e[0], uint32(e[1]), a.Prevote.TargetHash, a.Prevote.SignContent, a.Prevote.Sig)
	}
	if len(a.Precommit.Sig) > 0 && len(a.Precommit.SignContent) > 0 {
		o.signatureLeft(nd, "precommit", e[0], uint32(e[1]), string(a.Precommit.SignContent))
		o.checkOwnVote(nd, "precommit", e[0], uint32(e[1]), a.Precommit.TargetHash, a.Precommit.SignContent, a.Precommit.Sig)
	}
}

func (o *vzOracles) onRoundEntrance(nd *vzNode, re tmeil.StateMachineRoundEntrance) {
	o.w.s.Logf("%s state machine enters %d/%d", nd.ident(), re.H, re.R)
	if o.w.s.Stopped() || nd.byz {
		return
	}
	o.mu.Lock()
	defer o.mu.Unlock()
	// C08 / C10: a state machine enters a height it has never been in at round 0 (it leaves rounds only
	// forwards and for a cause); a restarted one resumes the height and round it had recorded, or starts
	// the next height at round 0 - never in the middle of a height it has not seen.
	d := nd.disk
	if d.enteredRound == nil {
		d.enteredRound = map[uint64]uint32{}
	}
	o.smEntered[nd.ident()] = [2]uint64{re.H, uint64(re.R)}
	prev, seen := d.enteredRound[re.H]
	if !seen && re.R != 0 {
		key, prop := "height-first-entered-at-round-above-zero", "C08"
		if nd.inc > 1 {
			prop = "C10"
		}
		o.violate(prop, key, "%s: the state machine's first entrance into height %d is at round %d (incarnation %d)", nd.ident(), re.H, re.R, nd.inc)
		if prop == "C10" {
			o.violate("C08", key, "%s: the state machine's first entrance into height %d is at round %d (incarnation %d)", nd.ident(), re.H, re.R, nd.inc)
		}
	}
	if !seen || re.R > prev {
		d.enteredRound[re.H] = re.R
	}
}

// checkView = monotonicity per consumer (C11) + content checks (C05, C06, C07).
func (o *vzOracles) checkView(nd *vzNode, consumer string, v *tmconsensus.VersionedRoundView) {
	o.checkViewContent(nd, consumer, v)
	if o.on["C11"] && !nd.byz {
		o.delivered = append(o.delivered, vzDeliveredView{node: nd, inc: nd.inc, consumer: consumer, v: v, digest: vzViewContentDigest(v), step: o.w.s.Steps})
		if len(o.delivered) > 48 {
			o.delivered = o.delivered[len(o.delivered)-48:]
		}
	}
	key := fmt.Sprintf("%s/%s/%d/%d", nd.ident(), consumer, v.Height, v.Round)
	dg := vzViewDigest{version: v.Version, phs: map[string]bool{}, votes: map[string]bool{}}
	for _, ph := range v.ProposedHeaders {
		dg.phs[string(ph.Header.Hash)+"/"+string(ph.Signature)] = true
	}
	var bs bitset.BitSet
	for kind, m := range map[string]map[string]gcrypto.CommonMessageSignatureProof{"prevote": v.PrevoteProofs, "precommit": v.PrecommitProofs} {
		for hash, p := range m {
			p.SignatureBitSet(&bs)
			for u, ok := bs.NextSet(0); ok; u, ok = bs.NextSet(u + 1) {
				dg.votes[fmt.Sprintf("%s/%x/%d", kind, hash, u)] = true
			}
		}
	}
	if prev, ok := o.lastView[key]; ok {
		// A jump-ahead is a signal that carries a snapshot of the round to move towards; the mirror may
		// repeat it (a state machine several rounds behind is moved one round at a time), so the same
		// version may be seen again there. It must never go backwards, and it must never shrink.
		repeatOK := consumer == "statemachine-jump" && v.Version == prev.version
		if v.Version <= prev.version && !repeatOK {
			o.violate("C11", "version-not-increasing/"+strings.SplitN(consumer, "-", 2)[0], "%s: %s received view %d/%d version %d after version %d", nd.ident(), consumer, v.Height, v.Round, v.Version, prev.version)
		}
		for k := range prev.phs {
			if !dg.phs[k] {
				o.violate("C11", "view-shrank/"+strings.SplitN(consumer, "-", 2)[0], "%s: %s view %d/%d version %d lost a proposed header that version %d had", nd.ident(), consumer, v.Height, v.Round, v.Version, prev.version)
			}
		}
		for k := range prev.votes {
			if !dg.votes[k] {
				o.violate("C11", "view-shrank/"+strings.SplitN(consumer, "-", 2)[0], "%s: %s view %d/%d version %d lost vote %s that version %d had", nd.ident(), consumer, v.Height, v.Round, v.Version, k, prev.version)
			}
		}
	}
	o.lastView[key] = dg
}

func (o *vzOracles) checkViewContent(nd *vzNode, where string, v *tmconsensus.VersionedRoundView) {
	o.checkViewValidators(nd, where, v.Height, v.ValidatorSet)
	// C05 oracle A: every signature in the view verifies for exactly its target
	for kind, m := range map[string]map[string]gcrypto.CommonMessageSignatureProof{"prevote": v.PrevoteProofs, "precommit": v.PrecommitProofs} {
		for hash, p := range m {
			sp := p.AsSparse()
			o.checkSparseAuthenticSet(nd, where, kind, v.Height, v.Round, v.ValidatorSet, []byte(sp.PubKeyHash), map[string][]gcrypto.SparseSignature{hash: sp.Signatures})
		}
	}
	// C05: the previous commit proof a view carries verifies for the round it names
	if o.on["C05"] && !nd.byz && v.Height > o.w.cfg.initialHeight && len(v.PrevCommitProof.Proofs) > 0 {
		if vs, ok := o.valSetFor(v.Height - 1); ok {
			o.checkSparseAuthenticSet(nd, where+"-view-prevcommit", "precommit", v.Height-1, v.PrevCommitProof.Round, vs, []byte(v.PrevCommitProof.PubKeyHash), v.PrevCommitProof.Proofs)
		}
	}
	// C05: no proof entry without a signer (an all-invalid message must leave no trace)
	if o.on["C05"] && !nd.byz {
		var bs bitset.BitSet
		for kind, m := range map[string]map[string]gcrypto.CommonMessageSignatureProof{"prevote": v.PrevoteProofs, "precommit": v.PrecommitProofs} {
			for hash, p := range m {
				p.SignatureBitSet(&bs)
				if bs.None() {
					o.violate("C05", "empty-proof-entry-in-view/"+kind, "%s %s view %d/%d has a %s entry for %x without any signature", nd.ident(), where, v.Height, v.Round, kind, hash)
				}
			}
		}
		// signatures of previous-commit proofs carried by the proposed headers in the view
		for _, ph := range v.ProposedHeaders {
			if ph.Header.Height <= o.w.cfg.initialHeight || len(ph.Signature) == 0 {
				continue
			}
			if vs, ok := o.valSetFor(ph.Header.Height - 1); ok {
				o.checkSparseAuthenticSet(nd, where+"-prevcommit", "precommit", ph.Header.Height-1, ph.Header.PrevCommitProof.Round, vs, []byte(ph.Header.PrevCommitProof.PubKeyHash), ph.Header.PrevCommitProof.Proofs)
			}
		}
	}
	// C06: the reported summary equals a recomputation with each validator counted once
	o.checkVoteSummary(nd, where, v)
}

// ---- C06

func (o *vzOracles) onFetchRequest(nd *vzNode, h uint64, hash string) {
	o.mu.Lock()
	o.fetchReq[fmt.Sprintf("%s/%s", nd.ident(), hash)] = true // a block hash names one block at one height
	o.mu.Unlock()
	o.w.s.Probe("proposed_header_fetch_requested")
}

// checkFetchThreshold (C06): the mirror asks for a proposed header it lacks once the distinct validators
// that voted for it hold at least a third of the power - each counted with its full power for every
// target it signed. Judged on the voting view handed to gossip, which is published after the request.
func (o *vzOracles) checkFetchThreshold(nd *vzNode, v *tmconsensus.VersionedRoundView) {
	if !o.on["C06"] || nd.byz || nd.inc > 1 {
		return
	}
	have := map[string]bool{}
	for _, ph := range v.ProposedHeaders {
		have[string(ph.Header.Hash)] = true
	}
	var total uint64
	for _, val := range v.ValidatorSet.Validators {
		total += val.Power
	}
	min := tmconsensus.ByzantineMinority(total)
	// Only votes that were added to the round while it was the voting round are judged (the kernel
	// decides about fetching when it adds votes to a view; votes a round brings along when it becomes
	// the voting round were judged, if at all, against another view): the power must have grown since
	// the previous voting view of the same round.
	rk := fmt.Sprintf("%s/%d/%d", nd.ident(), v.Height, v.Round)
	prev, hadPrev := o.fetchPrev[rk]
	cur := map[string]uint64{}
	o.fetchPrev[rk] = cur
	var bs bitset.BitSet
	for _, kind := range []string{"prevote", "precommit"} {
		m := v.PrevoteProofs
		if kind == "precommit" {
			m = v.PrecommitProofs
		}
		var hashes []string
		for hash := range m {
			if hash != "" && !have[hash] {
				hashes = append(hashes, hash)
			}
		}
		sort.Strings(hashes)
		for _, hash := range hashes {
			m[hash].SignatureBitSet(&bs)
			var pow uint64
			for u, ok := bs.NextSet(0); ok && int(u) < len(v.ValidatorSet.Validators); u, ok = bs.NextSet(u + 1) {
				pow += v.ValidatorSet.Validators[u].Power
			}
			cur[kind+"/"+hash] = pow
			if hadPrev && pow > prev[kind+"/"+hash] && pow >= min && !o.fetchReq[fmt.Sprintf("%s/%s", nd.ident(), hash)] {
				o.violate("C06", "fetch-not-requested/"+kind, "%s: voting view %d/%d version %d shows %ss of distinct validators with power %d (of %d, a third is %d) for %x, which the node has no proposed header for, but the mirror has not asked to fetch it", nd.ident(), v.Height, v.Round, v.Version, kind, pow, total, min, trunc(hash))
			}
		}
	}
}

func (o *vzOracles) checkVoteSummary(nd *vzNode, where string, v *tmconsensus.VersionedRoundView) {
	if !o.on["C06"] {
		return
	}
	vals := v.ValidatorSet.Validators
	total := new(big.Int)
	for _, x := range vals {
		total.Add(total, new(big.Int).SetUint64(x.Power))
	}
	vs := v.VoteSummary
	if new(big.Int).SetUint64(vs.AvailablePower).Cmp(total) != 0 {
		o.violate("C06", "available-power", "%s %s view %d/%d: AvailablePower=%d, validators sum to %s", nd.ident(), where, v.Height, v.Round, vs.AvailablePower, total)
	}
	var bs bitset.BitSet
	for kind, m := range map[string]map[string]gcrypto.CommonMessageSignatureProof{"prevote": v.PrevoteProofs, "precommit": v.PrecommitProofs} {
		union := map[uint]bool{}
		per := map[string]*big.Int{}
		for hash, p := range m {
			p.SignatureBitSet(&bs)
			sum := new(big.Int)
			for u, ok := bs.NextSet(0); ok && int(u) < len(vals); u, ok = bs.NextSet(u + 1) {
				sum.Add(sum, new(big.Int).SetUint64(vals[u].Power))
				union[u] = true
			}
			per[hash] = sum
		}
		present := new(big.Int)
		for u := range union {
			present.Add(present, new(big.Int).SetUint64(vals[u].Power))
		}
		gotTotal, gotPer, gotMost := vs.TotalPrevotePower, vs.PrevoteBlockPower, vs.MostVotedPrevoteHash
		if kind == "precommit" {
			gotTotal, gotPer, gotMost = vs.TotalPrecommitPower, vs.PrecommitBlockPower, vs.MostVotedPrecommitHash
		}
		if new(big.Int).SetUint64(gotTotal).Cmp(present) != 0 {
			o.violate("C06", "total-"+kind+"-power", "%s %s view %d/%d: Total %s power reported %d, but the distinct validators who voted hold %s (per target: %v)", nd.ident(), where, v.Height, v.Round, kind, gotTotal, present, per)
		}
		for hash, want := range per {
			if new(big.Int).SetUint64(gotPer[hash]).Cmp(want) != 0 {
				o.violate("C06", "block-"+kind+"-power", "%s %s view %d/%d: %s power for %x reported %d, recomputed %s", nd.ident(), where, v.Height, v.Round, kind, hash, gotPer[hash], want)
			}
		}
		// most voted: max power, ties -> lexicographically smaller hash
		best, bestPow := "", new(big.Int)
		hs := make([]string, 0, len(per))
		for h := range per {
			hs = append(hs, h)
		}
		sort.Strings(hs)
		for _, h := range hs {
			if per[h].Cmp(bestPow) > 0 {
				best, bestPow = h, per[h]
			}
		}
		if len(per) > 0 && bestPow.Sign() > 0 && gotMost != best {
			o.violate("C06", "most-voted-"+kind, "%s %s view %d/%d: most voted %s hash reported %x, recomputed %x (%v)", nd.ident(), where, v.Height, v.Round, kind, gotMost, best, per)
		}
	}
}

// ---- C05 oracle A

func (o *vzOracles) valSetFor(h uint64) (tmconsensus.ValidatorSet, bool) {
	if vs, ok := o.prescribed[h]; ok {
		return vs, true
	}
	if h == o.w.cfg.initialHeight {
		return o.w.fx.ValSet(), true
	}
	return tmconsensus.ValidatorSet{}, false
}

func (o *vzOracles) checkSparseAuthentic(nd *vzNode, where, kind string, h uint64, r uint32, pkh []byte, proofs map[string][]gcrypto.SparseSignature) {
	if !o.on["C05"] || nd.byz {
		return
	}
	vs, ok := o.valSetFor(h)
	if !ok {
		return // the harness does not know that height's set yet (future height): nothing to verify against
	}
	o.checkSparseAuthenticSet(nd, where, kind, h, r, vs, pkh, proofs)
}

func (o *vzOracles) checkSparseAuthenticSet(nd *vzNode, where, kind string, h uint64, r uint32, vs tmconsensus.ValidatorSet, pkh []byte, proofs map[string][]gcrypto.SparseSignature) {
	if !o.on["C05"] || nd.byz {
		return
	}
	for hash, sigs := range proofs {
		vt := tmconsensus.VoteTarget{Height: h, Round: r, BlockHash: hash}
		var sb []byte
		if kind == "prevote" {
			sb, _ = tmconsensus.PrevoteSignBytes(vt, o.w.fx.SignatureScheme)
		} else {
			sb, _ = tmconsensus.PrecommitSignBytes(vt, o.w.fx.SignatureScheme)
		}
		for _, sg := range sigs {
			if len(sg.KeyID) != 2 {
				o.violate("C05", "malformed-key-id/"+where, "%s %s: %s %d/%d for %x holds a signature with key id %x", nd.ident(), where, kind, h, r, hash, sg.KeyID)
				continue
			}
			idx := int(binary.BigEndian.Uint16(sg.KeyID))
			if idx >= len(vs.Validators) {
				o.violate("C05", "key-id-out-of-range/"+where, "%s %s: %s %d/%d for %x holds a signature of validator index %d of %d", nd.ident(), where, kind, h, r, hash, idx, len(vs.Validators))
				continue
			}
			pk, ok := vs.Validators[idx].PubKey.(gcrypto.Ed25519PubKey)
			if !ok || !ed25519.Verify(ed25519.PublicKey(pk), sb, sg.Sig) {
				// diagnosis: does it verify for anything nearby?
				diag := "verifies for nothing tried"
				for vi, vv := range vs.Validators {
					for _, k2 := range []string{"prevote", "precommit"} {
						for dr := -1; dr <= 1; dr++ {
							vt2 := tmconsensus.VoteTarget{Height: h, Round: uint32(int(r) + dr), BlockHash: hash}
							var sb2 []byte
							if k2 == "prevote" {
								sb2, _ = tmconsensus.PrevoteSignBytes(vt2, o.w.fx.SignatureScheme)
							} else {
								sb2, _ = tmconsensus.PrecommitSignBytes(vt2, o.w.fx.SignatureScheme)
							}
							if pk2, ok2 := vv.PubKey.(gcrypto.Ed25519PubKey); ok2 && ed25519.Verify(ed25519.PublicKey(pk2), sb2, sg.Sig) {
								diag = fmt.Sprintf("it verifies as a %s by validator %d for round %d", k2, vi, vt2.Round)
							}
						}
					}
				}
				for fi, pv := range o.w.fx.PrivVals {
					for dh := -1; dh <= 1; dh++ {
						for _, k2 := range []string{"prevote", "precommit"} {
							for _, hh := range []string{hash, ""} {
								vt2 := tmconsensus.VoteTarget{Height: uint64(int(h) + dh), Round: r, BlockHash: hh}
								var sb2 []byte
								if k2 == "prevote" {
									sb2, _ = tmconsensus.PrevoteSignBytes(vt2, o.w.fx.SignatureScheme)
								} else {
									sb2, _ = tmconsensus.PrecommitSignBytes(vt2, o.w.fx.SignatureScheme)
								}
								if pv.Val.PubKey.Verify(sb2, sg.Sig) {
									diag += fmt.Sprintf("; verifies as %s by fixture validator %d for height %d hash %x", k2, fi, vt2.Height, trunc(hh))
								}
							}
						}
					}
				}
				o.violate("C05", "unauthentic-signature/"+where+"/"+kind, "%s %s: the %s signature filed under height %d round %d hash %x for validator %d does not verify for that target (%s); prescribed set has %d validators", nd.ident(), where, kind, h, r, hash, idx, diag, len(vs.Validators))
			}
		}
	}
}

// ---- C07

func (o *vzOracles) checkViewValidators(nd *vzNode, where string, h uint64, got tmconsensus.ValidatorSet) {
	if !o.on["C07"] || nd.byz {
		return
	}
	want, ok := o.valSetFor(h)
	if !ok {
		return
	}
	if d := vzDiffValSet(want, got); d != "" {
		o.violate("C07", "wrong-validator-set/"+strings.SplitN(where, "-", 2)[0], "%s %s at height %d uses a validator set that differs from the one the chain prescribes in %s", nd.ident(), where, h, d)
	}
}

func vzDiffValSet(a, b tmconsensus.ValidatorSet) string {
	if len(a.Validators) != len(b.Validators) {
		return fmt.Sprintf("length (%d vs %d)", len(a.Validators), len(b.Validators))
	}
	for i := range a.Validators {
		if !a.Validators[i].PubKey.Equal(b.Validators[i].PubKey) {
			return fmt.Sprintf("key %d", i)
		}
		if a.Validators[i].Power != b.Validators[i].Power {
			return fmt.Sprintf("power %d (%d vs %d)", i, a.Validators[i].Power, b.Validators[i].Power)
		}
	}
	return ""
}

// checkValidatorSetOfHeader: the lists of a committed header hash to the hashes its block hash covers.
func (o *vzOracles) checkValidatorSetOfHeader(nd *vzNode, h tmconsensus.Header) {
	if !o.on["C07"] || nd.byz {
		return
	}
	hs := o.w.fx.HashScheme
	for name, vs := range map[string]tmconsensus.ValidatorSet{"ValidatorSet": h.ValidatorSet, "NextValidatorSet": h.NextValidatorSet} {
		if len(vs.Validators) == 0 {
			o.violate("C07", "committed-header-empty-"+name, "%s: committed header %d has an empty %s", nd.ident(), h.Height, name)
			continue
		}
		kh, _ := hs.PubKeys(tmconsensus.ValidatorsToPubKeys(vs.Validators))
		ph, _ := hs.VotePowers(tmconsensus.ValidatorsToVotePowers(vs.Validators))
		if !bytes.Equal(kh, vs.PubKeyHash) || !bytes.Equal(ph, vs.VotePowerHash) {
			o.violate("C07", "committed-header-list-hash-mismatch", "%s: the %s list of committed header %d does not hash to the hashes covered by its block hash", nd.ident(), name, h.Height)
		}
	}
	if want, ok := o.valSetFor(h.Height); ok {
		if d := vzDiffValSet(want, h.ValidatorSet); d != "" {
			o.violate("C07", "committed-header-wrong-validator-set", "%s: committed header %d carries a validator set differing from the prescribed one in %s", nd.ident(), h.Height, d)
		}
	}
}

// ---- C01: commit events need an independently verified > 2/3 certificate

// certPower counts, with crypto/ed25519 directly and math/big, the power of distinct members of
// the prescribed validator set of height h that signed precommit (h, r, hash).
func (o *vzOracles) certPower(h uint64, r uint32, hash string, sigs []gcrypto.SparseSignature) (power, total *big.Int, known bool) {
	vs, ok := o.valSetFor(h)
	if !ok {
		return nil, nil, false
	}
	sb, _ := tmconsensus.PrecommitSignBytes(tmconsensus.VoteTarget{Height: h, Round: r, BlockHash: hash}, o.w.fx.SignatureScheme)
	seen := map[int]bool{}
	power, total = new(big.Int), new(big.Int)
	for _, v := range vs.Validators {
		total.Add(total, new(big.Int).SetUint64(v.Power))
	}
	for _, sg := range sigs {
		if len(sg.KeyID) != 2 {
			continue
		}
		idx := int(binary.BigEndian.Uint16(sg.KeyID))
		if idx >= len(vs.Validators) || seen[idx] {
			continue
		}
		pk, ok := vs.Validators[idx].PubKey.(gcrypto.Ed25519PubKey)
		if !ok || !ed25519.Verify(ed25519.PublicKey(pk), sb, sg.Sig) {
			continue
		}
		seen[idx] = true
		power.Add(power, new(big.Int).SetUint64(vs.Validators[idx].Power))
	}
	return power, total, true
}

// vzSkeleton strips numbers and hex from a message so that it can be part of a class key.
func vzSkeleton(s string) string {
	var b strings.Builder
	prevN := false
	for _, r := range s {
		if (r >= '0' && r <= '9') || (prevN && ((r >= 'a' && r <= 'f') || (r >= 'A' && r <= 'F'))) {
			if !prevN {
				b.WriteByte('N')
			}
			prevN = true
			continue
		}
		prevN = false
		b.WriteRune(r)
	}
	out := b.String()
	if len(out) > 120 {
		out = out[:120]
	}
	return out
}

func isQuorum(power, total *big.Int) bool {
	// 3*power > 2*total
	return new(big.Int).Mul(power, big.NewInt(3)).Cmp(new(big.Int).Mul(total, big.NewInt(2))) > 0
}

func (o *vzOracles) checkCommitCertificate(nd *vzNode, where string, h tmconsensus.Header, proof tmconsensus.CommitProof) {
	if !o.on["C01"] || nd.byz {
		return
	}
	power, total, known := o.certPower(h.Height, proof.Round, string(h.Hash), proof.Proofs[string(h.Hash)])
	if !known {
		o.violate("C01", "commit-at-unprescribed-height/"+where, "%s treats height %d as committed (%s) although the chain has not prescribed a validator set for it", nd.ident(), h.Height, where)
		return
	}
	if !isQuorum(power, total) {
		o.violate("C01", "commit-without-certificate/"+where, "%s treats %x as committed at height %d round %d (%s) with valid precommit power %s of %s from the prescribed validator set", nd.ident(), h.Hash, h.Height, proof.Round, where, power, total)
	}
}

func (o *vzOracles) checkCommittingViewHasCertificate(nd *vzNode, v *tmconsensus.VersionedRoundView) {
	if !o.on["C01"] || nd.byz {
		return
	}
	best := false
	vs, ok := o.valSetFor(v.Height)
	if !ok {
		o.violate("C01", "commit-at-unprescribed-height/committing-view", "%s has a committing view at height %d although the chain has not prescribed a validator set for it", nd.ident(), v.Height)
		return
	}
	_ = vs
	var seen []string
	for hash, p := range v.PrecommitProofs {
		power, total, _ := o.certPower(v.Height, v.Round, hash, p.AsSparse().Signatures)
		seen = append(seen, fmt.Sprintf("%x:%s/%s(%d sigs)", trunc(hash), power, total, len(p.AsSparse().Signatures)))
		if hash == "" {
			continue
		}
		if isQuorum(power, total) {
			best = true
		}
	}
	if !best {
		sort.Strings(seen)
		o.violate("C01", "commit-without-certificate/committing-view", "%s has a committing view at height %d round %d in which no block has valid precommits of more than 2/3 of the prescribed power (valid power per target: %v)", nd.ident(), v.Height, v.Round, seen)
	}
}

func (o *vzOracles) checkFinalizeHasCertificate(nd *vzNode, fr tmdriver.FinalizeBlockRequest) {
	if !o.on["C01"] || nd.byz {
		return
	}
	// the certificate the node holds: its committed-header store entry, else its round store
	h := fr.Header.Height
	hash := string(fr.Header.Hash)
	if ch, ok := nd.disk.commitCH[h]; ok && string(ch.Header.Hash) == hash {
		if power, total, known := o.certPower(h, ch.Proof.Round, hash, ch.Proof.Proofs[hash]); known && isQuorum(power, total) {
			return
		}
	}
	_, _, pc, err := nd.disk.round.LoadRoundState(nd.ctx, h, fr.Round)
	if err == nil {
		if power, total, known := o.certPower(h, fr.Round, hash, pc.BlockSignatures[hash]); known && isQuorum(power, total) {
			return
		}
	}
	o.violate("C01", "finalize-without-certificate", "%s asked the driver to finalize %x at height %d round %d but holds no valid > 2/3 precommit certificate for it (round store: %v)", nd.ident(), hash, h, fr.Round, err)
}

// ---- C10: restart on the same stores

// onCrash records what is durable at the moment nd's process dies.
func (o *vzOracles) onCrash(nd *vzNode) {
	if !o.on["C10"] {
		return
	}
	o.mu.Lock()
	defer o.mu.Unlock()
	d := nd.disk
	sn := &vzCrashSnap{inc: nd.inc, commits: map[uint64]string{}, fins: map[uint64]string{}, rounds: map[[2]uint64]*vzViewDigest{}, checked: map[[2]uint64]bool{}}
	for h, l := range d.commits {
		sn.commits[h] = l[len(l)-1]
	}
	for h, f := range d.fins {
		sn.fins[h] = f
	}
	if n := len(d.nhr); n > 0 {
		sn.nhr, sn.hasNHR = d.nhr[n-1], true
		for _, hr := range [][2]uint64{{sn.nhr[0], sn.nhr[1]}, {sn.nhr[2], sn.nhr[3]}} {
			if hr[0] == 0 {
				continue
			}
			phs, pv, pc, err := d.round.LoadRoundState(context.Background(), hr[0], uint32(hr[1]))
			if err != nil {
				continue
			}
			dg := &vzViewDigest{phs: map[string]bool{}, votes: map[string]bool{}}
			for _, ph := range phs {
				dg.phs[string(ph.Header.Hash)+"/"+string(ph.Signature)] = true
			}
			for kind, c := range map[string]tmconsensus.SparseSignatureCollection{"prevote": pv, "precommit": pc} {
				for hash, sigs := range c.BlockSignatures {
					for _, sg := range sigs {
						dg.votes[fmt.Sprintf("%s/%x/%x", kind, hash, sg.KeyID)] = true
					}
				}
			}
			sn.rounds[hr] = dg
		}
	}
	sn.offered, sn.checkedStrat = o.offered[nd.idx], map[[2]uint64]bool{}
	o.offered[nd.idx] = nil
	o.crashSnap[nd.idx] = sn
}

// onStrategyOffered records the proposed headers the consensus strategy is offered (on entering a round or
// when asked to consider) and, for C10, checks on the first entrance into a resumed round after a restart
// that every stored proposal the strategy had already been offered in that round before the stop is offered again.
func (o *vzOracles) onStrategyOffered(nd *vzNode, h uint64, r uint32, phs []tmconsensus.ProposedHeader, entering bool) {
	if !o.on["C10"] || nd.byz || o.w.s.Stopped() {
		return
	}
	o.mu.Lock()
	defer o.mu.Unlock()
	hr := [2]uint64{h, uint64(r)}
	have := map[string]bool{}
	for _, ph := range phs {
		have[string(ph.Header.Hash)+"/"+string(ph.Signature)] = true
	}
	if sn := o.crashSnap[nd.idx]; entering && sn != nil && nd.inc == sn.inc+1 && sn.rounds[hr] != nil && !sn.checkedStrat[hr] {
		sn.checkedStrat[hr] = true
		live := false // the restarted mirror may already have left the round (startup view shift): then its view is gone
		if n := len(nd.disk.nhr); n > 0 {
			l := nd.disk.nhr[n-1]
			live = (l[0] == hr[0] && l[1] == hr[1]) || (l[2] == hr[0] && l[3] == hr[1])
		}
		var keys []string
		for k := range sn.rounds[hr].phs {
			keys = append(keys, k)
		}
		sort.Strings(keys)
		for _, k := range keys {
			if live && sn.offered[hr][k] && !have[k] {
				o.violate("C10", "stored-proposal-not-offered-after-restart", "%s: on entering the resumed round %d/%d the consensus strategy was not offered proposed header %x, which was in the round store when the process stopped and which it had been offered in that round before", nd.ident(), h, r, trunc(strings.SplitN(k, "/", 2)[0]))
			}
		}
	}
	if o.offered[nd.idx] == nil {
		o.offered[nd.idx] = map[[2]uint64]map[string]bool{}
	}
	if o.offered[nd.idx][hr] == nil {
		o.offered[nd.idx][hr] = map[string]bool{}
	}
	for k := range have {
		o.offered[nd.idx][hr][k] = true
	}
}

// checkResumedView: the first view of a resumed round that the restarted node publishes must contain
// every proposal and vote that was durable for that round when the process died.
func (o *vzOracles) checkResumedView(nd *vzNode, where string, v *tmconsensus.VersionedRoundView) {
	if !o.on["C10"] || v == nil {
		return
	}
	sn := o.crashSnap[nd.idx]
	if sn == nil || nd.inc != sn.inc+1 {
		return
	}
	hr := [2]uint64{v.Height, uint64(v.Round)}
	want := sn.rounds[hr]
	if want == nil || sn.checked[hr] {
		return
	}
	sn.checked[hr] = true
	have := map[string]bool{}
	for _, ph := range v.ProposedHeaders {
		have[string(ph.Header.Hash)+"/"+string(ph.Signature)] = true
	}
	for k := range want.phs {
		if !have[k] {
			o.violate("C10", "stored-proposal-missing-after-restart", "%s: the first %s view of the resumed round %d/%d lacks a proposed header that was in the round store when the process stopped", nd.ident(), where, v.Height, v.Round)
		}
	}
	got := map[string]bool{}
	for kind, m := range map[string]map[string]gcrypto.CommonMessageSignatureProof{"prevote": v.PrevoteProofs, "precommit": v.PrecommitProofs} {
		for hash, p := range m {
			for _, sg := range p.AsSparse().Signatures {
				got[fmt.Sprintf("%s/%x/%x", kind, hash, sg.KeyID)] = true
			}
		}
	}
	for k := range want.votes {
		if !got[k] {
			o.violate("C10", "stored-vote-missing-after-restart", "%s: the first %s view of the resumed round %d/%d lacks vote %s that was in the round store when the process stopped", nd.ident(), where, v.Height, v.Round, k)
		}
	}
}

// onRestartPosition: the first position a restarted node records must not be behind the durable one.
func (o *vzOracles) onRestartPosition(nd *vzNode, vh uint64, vr uint32, ch uint64, cr uint32) {
	sn := o.crashSnap[nd.idx]
	if !o.on["C10"] || sn == nil || !sn.hasNHR || nd.inc != sn.inc+1 {
		return
	}
	if vh < sn.nhr[0] || (vh == sn.nhr[0] && uint64(vr) < sn.nhr[1]) || ch < sn.nhr[2] {
		o.violate("C10", "position-regressed-after-restart", "%s: durable position was voting %d/%d committing %d/%d, after the restart the node recorded voting %d/%d committing %d/%d",
			nd.ident(), sn.nhr[0], sn.nhr[1], sn.nhr[2], sn.nhr[3], vh, vr, ch, cr)
	}
}

// checkRecovered runs at the end of a crash run whose environment kept re-sending what was in flight:
// the node must have reached the chain it would have reached without the stop.
func (o *vzOracles) checkRecovered(nd *vzNode, chain map[uint64]string, target uint64, crashed bool) {
	if !o.on["C10"] || !crashed {
		return
	}
	o.mu.Lock()
	defer o.mu.Unlock()
	d := nd.disk
	for h := o.w.cfg.initialHeight; h <= target; h++ {
		l := d.commits[h]
		if len(l) == 0 {
			o.violate("C10", "not-recovered/commit-missing", "%s: after the restart and re-delivery of everything in flight, height %d (of %d) is not in the committed header store; last position %v", nd.ident(), h, target, d.nhr[len(d.nhr)-1])
			return
		}
		if l[len(l)-1] != chain[h] {
			o.violate("C10", "not-recovered/other-chain", "%s: height %d committed as %x, the chain has %x", nd.ident(), h, trunc(l[len(l)-1]), trunc(chain[h]))
			return
		}
	}
	for h := o.w.cfg.initialHeight; h <= target; h++ {
		if d.fins[h] == "" {
			w := o.w
			w.mu.Lock()
			cause := w.lastErr[nd.ident()]
			w.mu.Unlock()
			o.violate("C10", "not-recovered/finalization-missing/"+vzSkeleton(cause), "%s: after the restart the mirror committed up to height %d but height %d was never finalized (state machine stuck or gone); last error logged: %q", nd.ident(), target, h, cause)
			return
		}
	}
}

// checkStoredHeadersIntact: what the committed-header store returns for a height is still what was saved
// (C04: no later input changes a committed height; C16: loads return what the latest save stored).
// checkRejectedReplaysLeftNoTrace (C05): a replayed header the engine refused is not in its round store.
func (o *vzOracles) checkRejectedReplaysLeftNoTrace(nd *vzNode) {
	if !o.on["C05"] {
		return
	}
	o.mu.Lock()
	defer o.mu.Unlock()
	var hashes []string
	for h := range nd.disk.replayedSaved {
		hashes = append(hashes, h)
	}
	sort.Strings(hashes)
	for _, h := range hashes {
		if !nd.disk.replayAccepted[h] {
			o.violate("C05", "rejected-replay-stored", "%s: a replayed header for height %d (%x) was written to the round store although every replay of it was refused", nd.ident(), nd.disk.replayedSaved[h], trunc(h))
		}
	}
}

// checkPositionInStep (C04, C10): once nothing is left to run, the persisted mirror position names the
// highest committed header as its committing height and the height above it as its voting height.
func (o *vzOracles) checkPositionInStep(nd *vzNode) {
	if !(o.on["C04"] || o.on["C10"]) {
		return
	}
	o.mu.Lock()
	defer o.mu.Unlock()
	d := nd.disk
	top := uint64(0)
	for h := range d.commits {
		if h > top {
			top = h
		}
	}
	if top == 0 || len(d.nhr) == 0 {
		return
	}
	l := d.nhr[len(d.nhr)-1]
	if l[2] != top || l[0] != top+1 {
		for _, p := range []string{"C04", "C10"} {
			if o.on[p] {
				o.violate(p, "position-out-of-step-with-committed-chain", "%s: nothing is left to run; the committed header store reaches height %d but the persisted position is voting %d/%d committing %d/%d", nd.ident(), top, l[0], l[1], l[2], l[3])
			}
		}
	}
}

func (o *vzOracles) checkStoredHeadersIntact(nd *vzNode) {
	if !o.on["C04"] && !o.on["C10"] && !o.on["C01"] {
		return
	}
	o.mu.Lock()
	defer o.mu.Unlock()
	d := nd.disk
	for h, want := range d.commitDigest {
		ch, err := d.commit.LoadCommittedHeader(context.Background(), h)
		if err != nil {
			o.violate("C04", "stored-committed-header-lost", "%s: committed header %d can no longer be loaded: %v", nd.ident(), h, err)
			continue
		}
		if got := vzCommittedHeaderDigest(ch); got != want {
			o.violate("C04", "stored-committed-header-mutated", "%s: the committed header store now returns something else for height %d than what was saved (proof targets saved %d, now %d)", nd.ident(), h, strings.Count(want, ":"), strings.Count(got, ":"))
			o.violate("C10", "stored-committed-header-mutated", "%s: the committed header store now returns something else for height %d than what was saved", nd.ident(), h)
			o.violate("C01", "stored-committed-header-mutated", "%s: the committed header store now returns something else for height %d than what was saved", nd.ident(), h)
		}
	}
}

// checkConsumersCurrent: once inputs have stopped, the gossip strategy has received the mirror's latest
// view of the voting and committing rounds (C11). snapshot returns the kernel's own views.
func (o *vzOracles) checkConsumersCurrent(nd *vzNode, voting, committing *tmconsensus.VersionedRoundView) {
	if !o.on["C11"] || nd.byz {
		return
	}
	o.mu.Lock()
	defer o.mu.Unlock()
	for i, kv := range []*tmconsensus.VersionedRoundView{voting, committing} {
		name := []string{"voting", "committing"}[i]
		if kv == nil || kv.Height == 0 {
			continue
		}
		// the round may have reached the gossip strategy as next-round, voting and committing view in turn
		var last vzViewDigest
		cname, found := "", false
		for _, cn := range []string{"gossip-voting", "gossip-committing", "gossip-next"} {
			if l, ok := o.lastView[fmt.Sprintf("%s/%s/%d/%d", nd.ident(), cn, kv.Height, kv.Round)]; ok && (!found || l.version > last.version) {
				last, cname, found = l, cn, true
			}
		}
		var held []string // the votes in the kernel's own view
		{
			var bs bitset.BitSet
			for kind, m := range map[string]map[string]gcrypto.CommonMessageSignatureProof{"prevote": kv.PrevoteProofs, "precommit": kv.PrecommitProofs} {
				for hash, p := range m {
					p.SignatureBitSet(&bs)
					for u, ok := bs.NextSet(0); ok; u, ok = bs.NextSet(u + 1) {
						held = append(held, fmt.Sprintf("%s/%x/%d", kind, hash, u))
					}
				}
			}
			sort.Strings(held)
		}
		// The state machine is entitled to the view of the round it is in while that round is the
		// mirror's voting or committing round. What it holds is what it entered the round with plus
		// every update since.
		o.w.mu.Lock()
		smH, smR := nd.curH, nd.curR
		o.w.mu.Unlock()
		if known, ok := o.smKnown[fmt.Sprintf("%s/%d/%d", nd.ident(), kv.Height, kv.Round)]; ok && smH == kv.Height && smR == kv.Round {
			for _, k := range held {
				if !known[k] {
					o.violate("C11", "consumer-not-current/statemachine", "%s: inputs have stopped; the kernel's %s view %d/%d (version %d) holds vote %s that the state machine, which is in that round, has never been handed", nd.ident(), name, kv.Height, kv.Round, kv.Version, k)
					break
				}
			}
		}
		for found {
			missing := ""
			for _, k := range held {
				if !last.votes[k] {
					missing = k
					break
				}
			}
			if missing != "" {
				o.violate("C11", "consumer-not-current/gossip", "%s: inputs have stopped; the kernel's %s view %d/%d (version %d) holds vote %s that the last %s view the gossip strategy received (version %d) lacks", nd.ident(), name, kv.Height, kv.Round, kv.Version, missing, cname, last.version)
			}
			break
		}
	}
}

// checkServing (C09, "stop serving"): at quiescence the node must hold every height that honest peers
// holding more than two thirds of the power have decided and resent. Only called for runs that stayed
// inside the fault model.
func (o *vzOracles) checkServing(nd *vzNode, chain map[uint64]string, commitRound map[uint64]uint32, last uint64) {
	if !o.on["C09"] {
		return
	}
	o.mu.Lock()
	defer o.mu.Unlock()
	d := nd.disk
	for h := o.w.cfg.initialHeight; h <= last; h++ {
		if len(d.commits[h]) == 0 || d.fins[h] == "" {
			w := o.w
			w.mu.Lock()
			cause := w.lastErr[nd.ident()]
			w.mu.Unlock()
			pos := "none"
			if n := len(d.nhr); n > 0 {
				pos = fmt.Sprint(d.nhr[n-1])
			}
			how := vzSkeleton(cause)
			if n := len(d.nhr); n > 0 && d.nhr[n-1][0] == h && d.nhr[n-1][1] > uint64(commitRound[h]) {
				// the mirror has left the round in which the network decided the height; it refuses that
				// round's votes as too old and has no way back
				how = "voting-round-beyond-the-decided-round"
			}
			o.violate("C09", "stopped-serving/"+how, "%s: nothing is left to run, the peers have decided and resent heights up to %d, but the node has not committed and finalized height %d (committed: %t, finalized: %t; position %s); last error logged: %q", nd.ident(), last, h, len(d.commits[h]) > 0, d.fins[h] != "", pos, cause)
			return
		}
	}
}
