//go:build verif

package vsimsm

// H-SM: the real tmstate.StateMachine alone on its channel interface. The simulator plays the
// mirror (round-entrance answers, monotonically growing view updates, jump-aheads, height
// committed signals), the round timer, the consensus strategy, the driver and the stores'
// environment, in every order the channels permit, and checks the trace against an executable
// reference of the round rules (C08), the timer discipline (C12a) and the signing rules (C02).

import (
	"errors"
	"context"
	"fmt"
	"io"
	"log/slog"
	"sort"
	"strings"
	"sync"
	"time"

	"github.com/gordian-engine/gordian/gcrypto"
	"github.com/gordian-engine/gordian/gwatchdog"
	"github.com/gordian-engine/gordian/internal/vsimcore"
	"github.com/gordian-engine/gordian/tm/tmconsensus"
	"github.com/gordian-engine/gordian/tm/tmconsensus/tmconsensustest"
	"github.com/gordian-engine/gordian/tm/tmdriver"
	"github.com/gordian-engine/gordian/tm/tmengine/internal/tmeil"
	"github.com/gordian-engine/gordian/tm/tmengine/internal/tmstate"
	"github.com/gordian-engine/gordian/tm/tmengine/internal/tmstate/internal/tsi"
	"github.com/gordian-engine/gordian/tm/tmengine/tmelink"
	"github.com/gordian-engine/gordian/tm/tmstore"
	"github.com/gordian-engine/gordian/tm/tmstore/tmmemstore"
)

func init() { Harnesses["sm"] = runSM }

// ---------------------------------------------------------------- the simulated world

type smRound struct {
	h        uint64
	r        uint32
	version  uint32
	phs      []tmconsensus.ProposedHeader
	hidden   []tmconsensus.ProposedHeader // proposed in the network, not yet arrived at this node's mirror (peers may vote for them already)
	votes    [2]map[string]map[int]bool // prevote, precommit: hash -> validator indices
	shownMax [2]map[string]uint64       // per kind: max power shown to the SM per hash (incl. "" nil)
}

func newSMRound(h uint64, r uint32) *smRound {
	return &smRound{h: h, r: r, version: 1, votes: [2]map[string]map[int]bool{{}, {}}}
}

type smTimer struct {
	kind      string
	h         uint64
	r         uint32
	ch        chan struct{}
	cancelled bool
	fired     bool
}

type smWorld struct {
	s   *vsimcore.Sim
	fx  *tmconsensustest.Fixture
	ctx context.Context
	n   int

	mu sync.Mutex

	// mirror model
	rounds    map[string]*smRound // "h/r"
	committed map[uint64]tmconsensus.CommittedHeader
	netH      uint64 // the network's (mirror's) voting height
	netR      uint32

	// state machine as observed
	smH         uint64
	smR         uint32
	entered     bool
	answered    bool // the current round entrance has been answered
	entrance    *tmeil.StateMachineRoundEntrance
	actions     chan tmeil.StateMachineRoundAction
	replaying   bool
	viewBusy    bool // a view is being handed to the SM
	viewCancel  chan struct{}
	pendingActs []tmeil.StateMachineRoundAction
	viewCh      chan tmeil.StateMachineRoundView
	blockDataCh chan tmelink.BlockDataArrival
	lastSent    map[string]uint32

	timers []*smTimer

	// trace facts for the reference model
	ev             []string
	shown          *smShown
	finalizeAsked  map[uint64]string
	finalizeResp   map[uint64]bool
	finSaved       map[uint64]bool
	entrances      [][2]uint64
	stratCalls     map[string]int // "kind/h/r"
	prevoteAnswers map[string][]string
	prevoteOut     map[string]bool // rounds whose prevote action has reached the mirror
	decideDueAt    map[string]int // "h/r" -> event count when a precommit decision became due
	decideDueWhy   map[string]string
	flakyStore     bool // action store writes fail now and then (C02: a signature whose save failed is not released)
	clockPasses    bool // virtual wall-clock time may pass while the state machine is busy (exposes its 100 ms guards)
	eventCount     int
	signed         map[string]map[string]bool
	saved          map[string]bool // signature -> saved in action store
	released       map[string]bool

	oracles map[string]bool

	curStratH uint64
	curStratR uint32
	reqH      uint64 // round of the request the consensus manager is working on
	cmH       uint64 // round in which the state machine can currently issue requests (set when an entrance is about to be answered)
	cmR       uint32
	reqR      uint32
	advanceOK map[string]string // "h/r" -> reason a move to r+1 is justified

	onRecord map[string]map[string]string // h/r -> kind -> signature the action store has accepted
	aStore   *tmmemstore.ActionStore
	fStore   *tmmemstore.FinalizationStore
	smStore  *tmmemstore.StateMachineStore
}

// what the SM has been shown for its current round
type smShown struct {
	h                            uint64
	r                            uint32
	prevotePow                   map[string]uint64
	precommitPow                 map[string]uint64
	totalPrevote, totalPrecommit uint64
}

// violate reports an oracle failure if the oracle's property is enabled for this check.
func (w *smWorld) violate(key, f string, a ...any) {
	prop := strings.SplitN(key, "/", 2)[0]
	if len(w.oracles) > 0 && !w.oracles[prop] {
		return
	}
	w.s.Violate(key, f, a...)
}

func (w *smWorld) total() uint64 {
	var t uint64
	for _, v := range w.fx.Vals() {
		t += v.Power
	}
	return t
}
func (w *smWorld) pow(i int) uint64 { return w.fx.Vals()[i].Power }

func (w *smWorld) event(f string, a ...any) {
	l := fmt.Sprintf(f, a...)
	w.s.Logf("%s", l)
	w.mu.Lock()
	w.eventCount++
	if len(w.ev) < 60 {
		w.ev = append(w.ev, l)
	}
	w.mu.Unlock()
}

func (w *smWorld) round(h uint64, r uint32) *smRound {
	k := fmt.Sprintf("%d/%d", h, r)
	if rd, ok := w.rounds[k]; ok {
		return rd
	}
	rd := newSMRound(h, r)
	w.rounds[k] = rd
	return rd
}

// vrv builds the engine view for a model round, with a truthful vote summary
// (each validator counted once), as the state machine is entitled to.
func (w *smWorld) vrv(rd *smRound) tmconsensus.VersionedRoundView {
	ctx := context.Background()
	v := tmconsensus.VersionedRoundView{Version: rd.version}
	v.Height, v.Round = rd.h, rd.r
	v.ValidatorSet = w.fx.ValSet()
	v.PrevCommitProof = tmconsensus.CommitProof{Proofs: map[string][]gcrypto.SparseSignature{}}
	if ch, ok := w.committed[rd.h-1]; ok {
		v.PrevCommitProof = ch.Proof
	}
	v.ProposedHeaders = append([]tmconsensus.ProposedHeader(nil), rd.phs...)
	toMap := func(m map[string]map[int]bool) map[string][]int {
		out := map[string][]int{}
		for h, s := range m {
			var l []int
			for i := range s {
				l = append(l, i)
			}
			sort.Ints(l)
			out[h] = l
		}
		return out
	}
	v.PrevoteProofs = w.fx.PrevoteProofMap(ctx, rd.h, rd.r, toMap(rd.votes[0]))
	v.PrecommitProofs = w.fx.PrecommitProofMap(ctx, rd.h, rd.r, toMap(rd.votes[1]))
	vs := tmconsensus.NewVoteSummary()
	vs.AvailablePower = w.total()
	for kind := 0; kind < 2; kind++ {
		seen := map[int]bool{}
		var tot uint64
		best, bestPow := "", uint64(0)
		per := map[string]uint64{}
		hs := make([]string, 0)
		for h := range rd.votes[kind] {
			hs = append(hs, h)
		}
		sort.Strings(hs)
		for _, h := range hs {
			var p uint64
			for i := range rd.votes[kind][h] {
				p += w.pow(i)
				if !seen[i] {
					seen[i] = true
					tot += w.pow(i)
				}
			}
			per[h] = p
			if p > bestPow {
				best, bestPow = h, p
			}
		}
		if kind == 0 {
			vs.TotalPrevotePower, vs.PrevoteBlockPower, vs.MostVotedPrevoteHash = tot, per, best
		} else {
			vs.TotalPrecommitPower, vs.PrecommitBlockPower, vs.MostVotedPrecommitHash = tot, per, best
		}
	}
	v.VoteSummary = vs
	v.PrevoteVersion, v.PrecommitVersion = rd.version, rd.version
	return v
}

func (w *smWorld) noteShown(v tmconsensus.VersionedRoundView) {
	w.mu.Lock()
	defer w.mu.Unlock()
	if w.shown == nil || w.shown.h != v.Height || w.shown.r != v.Round {
		w.shown = &smShown{h: v.Height, r: v.Round, prevotePow: map[string]uint64{}, precommitPow: map[string]uint64{}}
	}
	for h, p := range v.VoteSummary.PrevoteBlockPower {
		if p > w.shown.prevotePow[h] {
			w.shown.prevotePow[h] = p
		}
	}
	for h, p := range v.VoteSummary.PrecommitBlockPower {
		if p > w.shown.precommitPow[h] {
			w.shown.precommitPow[h] = p
		}
	}
	if v.VoteSummary.TotalPrevotePower > w.shown.totalPrevote {
		w.shown.totalPrevote = v.VoteSummary.TotalPrevotePower
	}
	if v.VoteSummary.TotalPrecommitPower > w.shown.totalPrecommit {
		w.shown.totalPrecommit = v.VoteSummary.TotalPrecommitPower
	}
	k := fmt.Sprintf("%d/%d", v.Height, v.Round)
	tot := w.total()
	// justification for leaving the round (rule 3)
	if 3*w.shown.precommitPow[""] > 2*tot {
		w.advanceOK[k] = "nil precommit quorum shown"
	}
	if w.shown.totalPrecommit == tot {
		q := false
		for _, p := range w.shown.precommitPow {
			if 3*p > 2*tot {
				q = true
			}
		}
		if !q {
			w.advanceOK[k] = "fully voted round without quorum shown"
		}
	}
	// a precommit decision becomes due (rule 4)
	if _, ok := w.decideDueAt[k]; !ok {
		due, why := false, ""
		if 3*w.shown.totalPrecommit >= tot {
			due, why = true, "minority-precommits-shown"
		}
		for h, p := range w.shown.prevotePow {
			_ = h
			if 3*p > 2*tot {
				due, why = true, "prevote-quorum-shown"
			}
		}
		if due {
			w.decideDueAt[k] = w.eventCount
			w.decideDueWhy[k] = why
		}
	}
}

// ---------------------------------------------------------------- seams implemented by the harness

type smStrategy struct{ w *smWorld }

func (st smStrategy) check(kind string) (uint64, uint32) {
	w := st.w
	w.mu.Lock()
	defer w.mu.Unlock()
	return w.curStratH, w.curStratR
}

func (st smStrategy) EnterRound(ctx context.Context, rv tmconsensus.RoundView, out chan<- tmconsensus.Proposal) error {
	w := st.w
	w.s.ParkID("sm", "strat", "enter")
	w.mu.Lock()
	w.curStratH, w.curStratR = rv.Height, rv.Round
	smH, smR := w.reqH, w.reqR
	w.mu.Unlock()
	w.event("strategy.EnterRound %d/%d proposalOut=%t", rv.Height, rv.Round, out != nil)
	if rv.Height != smH || rv.Round != smR {
		w.violate("C08/strategy-call-wrong-round/EnterRound", "EnterRound for %d/%d while the state machine entered %d/%d", rv.Height, rv.Round, smH, smR)
	}
	if out != nil && w.s.Pct("propose", 70) {
		p := tmconsensus.Proposal{DataID: fmt.Sprintf("local-data-%d-%d", rv.Height, rv.Round)}
		select {
		case out <- p:
		default:
		}
		if w.s.Pct("strategy-proposes-again", 20) {
			// a strategy that retries or changes its mind puts a second proposal on the round's channel
			// (the channel has room for one): the key must not sign two headers for one round
			go func() {
				w.s.ParkID("sm", "strat", "second-proposal")
				select {
				case out <- tmconsensus.Proposal{DataID: fmt.Sprintf("local-data-%d-%d-again", rv.Height, rv.Round)}:
					w.s.Probe("second_proposal_offered")
				default:
				}
			}()
		}
	}
	return nil
}

func (st smStrategy) answer(kind string, phs []tmconsensus.ProposedHeader, allowNotReady bool) (string, error) {
	w := st.w
	opts := []string{""}
	for _, ph := range phs {
		opts = append(opts, string(ph.Header.Hash))
	}
	if w.s.Pct("strategy-unlisted-hash", 5) {
		opts = append(opts, "hash-not-in-list")
	}
	weights := make([]int, len(opts))
	for i := range weights {
		weights[i] = 3
	}
	weights[0] = 1
	if allowNotReady {
		opts = append(opts, "NOTREADY")
		weights = append(weights, 2)
	}
	c := opts[w.s.ChooseW("strategy-"+kind, weights)]
	if c == "NOTREADY" {
		return "", tmconsensus.ErrProposedBlockChoiceNotReady
	}
	return c, nil
}

func (st smStrategy) note(ctx context.Context, kind string, phs []tmconsensus.ProposedHeader) string {
	w := st.w
	w.mu.Lock()
	defer w.mu.Unlock()
	if ctx.Err() != nil {
		// a request of a round the state machine has left meanwhile (its context is cancelled):
		// the strategy can see that, nothing is checked and the answer goes nowhere
		return "stale"
	}
	k := fmt.Sprintf("%s/%d/%d", kind, w.reqH, w.reqR)
	w.stratCalls[k]++
	for _, ph := range phs {
		if ph.Header.Height != w.reqH || ph.Round != w.reqR {
			w.violate("C08/strategy-call-wrong-round/"+kind, "%s was handed a proposed header of %d/%d but the request was issued while the state machine was in %d/%d", kind, ph.Header.Height, ph.Round, w.reqH, w.reqR)
		}
	}
	return k
}

func (st smStrategy) ConsiderProposedBlocks(ctx context.Context, phs []tmconsensus.ProposedHeader, _ tmconsensus.ConsiderProposedBlocksReason) (string, error) {
	w := st.w
	k := st.note(ctx, "consider", phs)
	w.s.ParkID("sm", "strat", "consider")
	h, err := st.answer("consider", phs, true)
	w.event("strategy.Consider(%d headers) [%s] -> %x err=%v", len(phs), k, trunc(h), err)
	if err == nil {
		w.mu.Lock()
		rk := strings.TrimPrefix(k, "consider/")
		w.prevoteAnswers[rk] = append(w.prevoteAnswers[rk], h)
		w.mu.Unlock()
	}
	return h, err
}

func (st smStrategy) ChooseProposedBlock(ctx context.Context, phs []tmconsensus.ProposedHeader) (string, error) {
	w := st.w
	k := st.note(ctx, "choose", phs)
	w.s.ParkID("sm", "strat", "choose")
	h, _ := st.answer("choose", phs, false)
	w.event("strategy.Choose(%d headers) [%s] -> %x", len(phs), k, trunc(h))
	w.mu.Lock()
	rk := strings.TrimPrefix(k, "choose/")
	w.prevoteAnswers[rk] = append(w.prevoteAnswers[rk], h)
	w.mu.Unlock()
	return h, nil
}

func (st smStrategy) DecidePrecommit(ctx context.Context, vs tmconsensus.VoteSummary) (string, error) {
	w := st.w
	k := st.note(ctx, "decide", nil)
	w.mu.Lock()
	n := w.stratCalls[k]
	w.mu.Unlock()
	if n > 1 && k != "stale" {
		w.violate("C08/second-decide-precommit", "DecidePrecommit was called %d times in round %s", n, strings.TrimPrefix(k, "decide/"))
	}
	w.s.ParkID("sm", "strat", "decide")
	var opts []string
	for h := range vs.PrevoteBlockPower {
		opts = append(opts, h)
	}
	sort.Strings(opts)
	opts = append([]string{""}, opts...)
	h := opts[w.s.Choose("strategy-decide", len(opts))]
	w.event("strategy.DecidePrecommit [%s] -> %x", k, trunc(h))
	w.mu.Lock()
	w.prevoteAnswers["pc/"+strings.TrimPrefix(k, "decide/")] = append(w.prevoteAnswers["pc/"+strings.TrimPrefix(k, "decide/")], h)
	w.mu.Unlock()
	return h, nil
}

func containsStr(l []string, x string) bool {
	for _, v := range l {
		if v == x {
			return true
		}
	}
	return false
}

func trunc(s string) string {
	if len(s) > 4 {
		return s[:4]
	}
	return s
}

type smRT struct{ w *smWorld }

func (r smRT) mk(kind string, h uint64, rd uint32) (<-chan struct{}, func()) {
	w := r.w
	w.mu.Lock()
	// C12a: at most one timer outstanding
	for _, t := range w.timers {
		if !t.cancelled && !t.fired {
			w.violate("C12/sm/second-timer-while-outstanding", "%s timer for %d/%d requested while the %s timer for %d/%d is still outstanding", kind, h, rd, t.kind, t.h, t.r)
		}
	}
	if h != w.smH || rd != w.smR {
		w.violate("C12/sm/timer-for-wrong-round", "%s timer requested for %d/%d while the state machine is in %d/%d", kind, h, rd, w.smH, w.smR)
	}
	t := &smTimer{kind: kind, h: h, r: rd, ch: make(chan struct{})}
	w.timers = append(w.timers, t)
	w.mu.Unlock()
	w.event("timer start %s %d/%d", kind, h, rd)
	return t.ch, func() {
		w.mu.Lock()
		t.cancelled = true
		w.mu.Unlock()
		w.event("timer cancel %s %d/%d", kind, h, rd)
	}
}
func (r smRT) ProposalTimer(_ context.Context, h uint64, rd uint32) (<-chan struct{}, func()) {
	return r.mk("proposal", h, rd)
}
func (r smRT) PrevoteDelayTimer(_ context.Context, h uint64, rd uint32) (<-chan struct{}, func()) {
	return r.mk("prevotedelay", h, rd)
}
func (r smRT) PrecommitDelayTimer(_ context.Context, h uint64, rd uint32) (<-chan struct{}, func()) {
	return r.mk("precommitdelay", h, rd)
}
func (r smRT) CommitWaitTimer(_ context.Context, h uint64, rd uint32) (<-chan struct{}, func()) {
	return r.mk("commitwait", h, rd)
}

type smSigner struct {
	w     *smWorld
	inner tmconsensus.PassthroughSigner
}

func (sg smSigner) rec(kind string, h uint64, r uint32, content []byte) {
	w := sg.w
	k := fmt.Sprintf("%s/%d/%d", kind, h, r)
	w.mu.Lock()
	if w.signed[k] == nil {
		w.signed[k] = map[string]bool{}
	}
	w.signed[k][string(content)] = true
	n := len(w.signed[k])
	smH, smR := w.smH, w.smR
	w.mu.Unlock()
	w.event("sign %s %d/%d", kind, h, r)
	if n > 1 {
		w.violate("C02/double-sign/"+kind+"/same-process", "the validator key signed %d different %s messages for %d/%d", n, kind, h, r)
	}
	if h != smH || r != smR {
		w.violate("C08/vote-for-wrong-round/"+kind, "signed a %s for %d/%d while in round %d/%d", kind, h, r, smH, smR)
	}
}
func (sg smSigner) Prevote(ctx context.Context, vt tmconsensus.VoteTarget) ([]byte, []byte, error) {
	c, s, err := sg.inner.Prevote(ctx, vt)
	if err == nil {
		sg.rec("prevote", vt.Height, vt.Round, c)
	}
	return c, s, err
}
func (sg smSigner) Precommit(ctx context.Context, vt tmconsensus.VoteTarget) ([]byte, []byte, error) {
	c, s, err := sg.inner.Precommit(ctx, vt)
	if err == nil {
		sg.rec("precommit", vt.Height, vt.Round, c)
	}
	return c, s, err
}
func (sg smSigner) SignProposedHeader(ctx context.Context, ph *tmconsensus.ProposedHeader) error {
	err := sg.inner.SignProposedHeader(ctx, ph)
	if err == nil {
		c, _ := tmconsensus.ProposalSignBytes(ph.Header, ph.Round, ph.Annotations, sg.inner.SignatureScheme)
		sg.rec("proposal", ph.Header.Height, ph.Round, c)
	}
	return err
}
func (sg smSigner) PubKey() gcrypto.PubKey { return sg.inner.PubKey() }

// stores: real memstores; saves are recorded (C02: save precedes release; C08: finalization stored)
type smActionStore struct{ w *smWorld }

func (a smActionStore) SaveProposedHeaderAction(ctx context.Context, ph tmconsensus.ProposedHeader) error {
	a.w.preSave("proposal", string(ph.Signature))
	var err error
	if a.w.storeFails("proposal") {
		err = errors.New("injected action store write failure")
	} else {
		err = a.w.aStore.SaveProposedHeaderAction(ctx, ph)
	}
	a.w.recSave("proposal", string(ph.Signature), err)
	a.recorded(ctx, ph.Header.Height, ph.Round, "proposal", string(ph.Signature), err)
	return err
}
func (a smActionStore) SavePrevoteAction(ctx context.Context, pk gcrypto.PubKey, vt tmconsensus.VoteTarget, sig []byte) error {
	a.w.preSave("prevote", string(sig))
	var err error
	if a.w.storeFails("prevote") {
		err = errors.New("injected action store write failure")
	} else {
		err = a.w.aStore.SavePrevoteAction(ctx, pk, vt, sig)
	}
	a.w.recSave("prevote", string(sig), err)
	a.recorded(ctx, vt.Height, vt.Round, "prevote", string(sig), err)
	return err
}
func (a smActionStore) SavePrecommitAction(ctx context.Context, pk gcrypto.PubKey, vt tmconsensus.VoteTarget, sig []byte) error {
	a.w.preSave("precommit", string(sig))
	var err error
	if a.w.storeFails("precommit") {
		err = errors.New("injected action store write failure")
	} else {
		err = a.w.aStore.SavePrecommitAction(ctx, pk, vt, sig)
	}
	a.w.recSave("precommit", string(sig), err)
	a.recorded(ctx, vt.Height, vt.Round, "precommit", string(sig), err)
	return err
}

// storeFails: in a tenth of the runs an action store write fails now and then (a full or failing disk).
// A signature whose save failed must not be released (C02); what the state machine does next (it
// stops, as documented for store errors) is not judged here.
func (w *smWorld) storeFails(kind string) bool {
	if !w.flakyStore || !w.s.Pct("action-store-write-fails", 15) {
		return false
	}
	w.s.Fault("action_store_write_failed")
	w.event("fault: the action store fails to record the %s", kind)
	return true
}

// recorded (C02): the action store is what keeps the validator from signing twice across restarts, so
// every signature it has accepted for a round must still be on record after every later save.
func (a smActionStore) recorded(ctx context.Context, h uint64, r uint32, kind, sig string, err error) {
	w := a.w
	k := fmt.Sprintf("%d/%d", h, r)
	w.mu.Lock()
	if w.onRecord == nil {
		w.onRecord = map[string]map[string]string{}
	}
	if w.onRecord[k] == nil {
		w.onRecord[k] = map[string]string{}
	}
	if err == nil {
		w.onRecord[k][kind] = sig
	}
	want := map[string]string{}
	for kk, v := range w.onRecord[k] {
		want[kk] = v
	}
	w.mu.Unlock()
	ra, lerr := w.aStore.LoadActions(ctx, h, r)
	if lerr != nil {
		if len(want) > 0 {
			w.violate("C02/recorded-signature-lost/load-failed", "after saving a %s the action store cannot load round %d/%d any more although it holds %d recorded signatures: %v", kind, h, r, len(want), lerr)
		}
		return
	}
	have := map[string]string{"proposal": string(ra.ProposedHeader.Signature), "prevote": ra.PrevoteSignature, "precommit": ra.PrecommitSignature}
	for _, kk := range []string{"proposal", "prevote", "precommit"} {
		if want[kk] != "" && have[kk] != want[kk] {
			w.violate("C02/recorded-signature-lost/"+kk, "after saving a %s for round %d/%d the action store no longer holds the %s signature it had recorded for that round", kind, h, r, kk)
		}
	}
}
func (a smActionStore) LoadActions(ctx context.Context, h uint64, r uint32) (tmstore.RoundActions, error) {
	return a.w.aStore.LoadActions(ctx, h, r)
}

// preSave runs right before the action store is asked to record a signature: if that signature
// has already been handed to the mirror, it was released before it was saved (C02).
func (w *smWorld) preSave(kind, sig string) {
	w.mu.Lock()
	ch := w.actions
	w.mu.Unlock()
	for ch != nil {
		select {
		case a := <-ch:
			w.mu.Lock()
			w.pendingActs = append(w.pendingActs, a)
			w.mu.Unlock()
			continue
		default:
		}
		break
	}
	w.mu.Lock()
	defer w.mu.Unlock()
	for _, a := range w.pendingActs {
		if string(a.PH.Signature) == sig || string(a.Prevote.Sig) == sig || string(a.Precommit.Sig) == sig {
			w.violate("C02/released-before-saved/"+kind, "the %s reached the mirror before the action store was asked to record it", kind)
		}
	}
}

func (w *smWorld) recSave(kind, sig string, err error) {
	w.mu.Lock()
	if err == nil {
		w.saved[sig] = true
	}
	w.mu.Unlock()
	w.event("action store save %s err=%v", kind, err)
}

type smFinStore struct{ w *smWorld }

func (f smFinStore) SaveFinalization(ctx context.Context, h uint64, r uint32, hash string, vs tmconsensus.ValidatorSet, app string) error {
	err := f.w.fStore.SaveFinalization(ctx, h, r, hash, vs, app)
	if err == nil {
		f.w.mu.Lock()
		f.w.finSaved[h] = true
		f.w.mu.Unlock()
	}
	f.w.event("finalization store save h=%d err=%v", h, err)
	return err
}
func (f smFinStore) LoadFinalizationByHeight(ctx context.Context, h uint64) (uint32, string, tmconsensus.ValidatorSet, string, error) {
	return f.w.fStore.LoadFinalizationByHeight(ctx, h)
}

// ---------------------------------------------------------------- the run

func runSM(s *vsimcore.Sim, p vsimcore.Params) vsimcore.RunInfo {
	var info vsimcore.RunInfo
	n := 4
	fx := tmconsensustest.NewEd25519Fixture(n)
	w := &smWorld{s: s, fx: fx, n: n, rounds: map[string]*smRound{}, committed: map[uint64]tmconsensus.CommittedHeader{},
		lastSent: map[string]uint32{}, finalizeAsked: map[uint64]string{}, finalizeResp: map[uint64]bool{}, finSaved: map[uint64]bool{},
		stratCalls: map[string]int{}, prevoteAnswers: map[string][]string{}, prevoteOut: map[string]bool{}, decideDueAt: map[string]int{}, decideDueWhy: map[string]string{}, signed: map[string]map[string]bool{},
		saved: map[string]bool{}, released: map[string]bool{}, advanceOK: map[string]string{},
		aStore: tmmemstore.NewActionStore(), fStore: tmmemstore.NewFinalizationStore(), smStore: tmmemstore.NewStateMachineStore()}
	w.oracles = map[string]bool{}
	for _, o := range strings.Split(p.Str("oracles", ""), ",") {
		if o != "" {
			w.oracles[o] = true
		}
	}
	maxSteps := p.Int("max_steps", 700)
	targetHeights := uint64(2 + s.Choose("heights", 2))
	lateStart := s.Pct("network-ahead-at-entry", 40) // the SM may enter rounds whose votes are already present
	w.clockPasses = s.Pct("wall-clock-passes", 35)
	w.flakyStore = w.oracles["C02"] && s.Pct("flaky-action-store", 25)
	log := slog.New(slog.NewTextHandler(io.Discard, &slog.HandlerOptions{Level: slog.LevelError + 8}))

	s.AttachSelect()
	s.AttachCases(func(ctx context.Context, site string, v any) {
		// the round a strategy request belongs to is the round the state machine was in when the
		// consensus manager took the request (the hand-off is synchronous)
		if strings.Contains(site, "ConsensusManager.kernel") {
			w.mu.Lock()
			// (cmH/cmR, not smH/smR: within one event the state machine may hand a request over and
			// then enter the next round while the manager is still receiving; the manager's round
			// changes only once the mirror has answered the entrance, before which the state machine
			// cannot issue anything for the new round)
			w.reqH, w.reqR = w.cmH, w.cmR
			// rule 4: once the prevote of the round is out, the strategy is not asked to choose it again
			kind := ""
			switch v.(type) {
			case tsi.ConsiderProposedBlocksRequest:
				kind = "consider"
			case tsi.ChooseProposedBlockRequest:
				kind = "choose"
			}
			if rk := fmt.Sprintf("%d/%d", w.cmH, w.cmR); kind != "" && w.prevoteOut[rk] {
				w.mu.Unlock()
				w.violate("C08/prevote-choice-requested-after-prevote/"+kind, "the state machine made a %s request in %s although its prevote for that round had already been released", kind, rk)
				w.mu.Lock()
			}
			w.mu.Unlock()
		}
	})
	defer vsimcore.Detach()
	s.Bubble(func() {
		root, cancel := context.WithCancel(context.Background())
		ctx := vsimcore.WithIdent(root, "sm")
		w.ctx = ctx
		wd, wctx := gwatchdog.NewNopWatchdog(ctx, log)
		viewIn := make(chan tmeil.StateMachineRoundView)
		entranceOut := make(chan tmeil.StateMachineRoundEntrance)
		finReq := make(chan tmdriver.FinalizeBlockRequest)
		w.viewCh = viewIn
		w.blockDataCh = make(chan tmelink.BlockDataArrival, 4)
		genesis := fx.DefaultGenesis()
		// the pre-genesis finalization, as tmengine.New stores it
		gh, _ := genesis.Header(fx.HashScheme)
		w.fStore.SaveFinalization(ctx, genesis.InitialHeight-1, 0, string(gh.Hash), genesis.ValidatorSet, string(genesis.CurrentAppStateHash))
		cfg := tmstate.StateMachineConfig{
			Signer:                            smSigner{w: w, inner: tmconsensus.PassthroughSigner{Signer: fx.PrivVals[0].Signer, SignatureScheme: fx.SignatureScheme}},
			HashScheme:                        fx.HashScheme,
			SignatureScheme:                   fx.SignatureScheme,
			CommonMessageSignatureProofScheme: fx.CommonMessageSignatureProofScheme,
			Genesis:                           genesis,
			ActionStore:                       smActionStore{w},
			FinalizationStore:                 smFinStore{w},
			StateMachineStore:                 w.smStore,
			RoundTimer:                        smRT{w},
			ConsensusStrategy:                 smStrategy{w},
			RoundViewInCh:                     viewIn,
			BlockDataArrivalCh:                w.blockDataCh,
			RoundEntranceOutCh:                entranceOut,
			FinalizeBlockRequestCh:            finReq,
			Watchdog:                          wd,
		}
		w.netH, w.netR = 1, 0
		sm, err := tmstate.NewStateMachine(wctx, log, cfg)
		if err != nil {
			w.violate("C09/sm-new-failed", "%v", err)
			cancel()
			return
		}
		// driver
		go func() {
			for {
				select {
				case <-wctx.Done():
					return
				case fr := <-finReq:
					w.onFinalizeRequest(fr)
					s.ParkID("sm", "driver", "finalize")
					resp := tmdriver.FinalizeBlockResponse{Height: fr.Header.Height, Round: fr.Round, BlockHash: fr.Header.Hash, Validators: fx.Vals(), AppStateHash: []byte(fmt.Sprintf("app-%d", fr.Header.Height))}
					w.mu.Lock()
					w.finalizeResp[fr.Header.Height] = true
					w.mu.Unlock()
					w.event("driver answers finalization of %d", fr.Header.Height)
					select {
					case fr.Resp <- resp:
					case <-wctx.Done():
						return
					}
				}
			}
		}()
		// round entrances
		go func() {
			for {
				select {
				case <-wctx.Done():
					return
				case re := <-entranceOut:
					w.onEntrance(re, lateStart)
				}
			}
		}()

		for s.Steps < maxSteps && !s.Failed() && !s.Expired() {
			vsimcore.Wait()
			w.drainActions()
			w.checkDue()
			if s.Failed() {
				break
			}
			w.mu.Lock()
			done := w.smH > targetHeights
			w.mu.Unlock()
			if done {
				break
			}
			acts := s.ParkActions(func(string) int { return 6 })
			acts = append(acts, w.mirrorActions()...)
			if len(acts) == 0 {
				break
			}
			s.Pick(acts)
		}
		vsimcore.Wait()
		w.drainActions()
		// end of run checks: the SM goroutine must still be there
		select {
		case <-sm.VzDone():
			if !s.Failed() {
				w.violate("C09/sm-exited", "the state machine goroutine exited during the run")
			}
		default:
		}
		info.SimNs = int64(s.SimTime())
		w.fillInfo(&info)
		s.Checkpoint(info)
		s.Freeze()
		// shutdown: first let everything that is parked run to quiescence (a goroutine cancelled
		// while it sits in one of the state machine's 100 ms guarded sends would panic when fake
		// time advances during the final waits), then cancel
		s.Stop()
		vsimcore.Wait()
		cancel()
		sm.Wait()
		wd.Wait()
	})
	w.fillInfo(&info)
	return info
}

func (w *smWorld) fillInfo(info *vsimcore.RunInfo) {
	w.mu.Lock()
	defer w.mu.Unlock()
	info.Nontrivial = len(w.entrances) >= 2
	nStrat := 0
	for _, v := range w.stratCalls {
		nStrat += v
	}
	info.States = []string{fmt.Sprintf("e%d/s%d/f%d", min(len(w.entrances), 6), min(nStrat, 8), len(w.finalizeAsked))}
	info.Sample = map[string]any{"harness": "sm", "entrances": w.entrances, "events": w.ev}
}

func (w *smWorld) onFinalizeRequest(fr tmdriver.FinalizeBlockRequest) {
	h := fr.Header.Height
	hash := string(fr.Header.Hash)
	w.event("FINALIZE request %d round %d %x", h, fr.Round, trunc(hash))
	// the model follows: if the network has not recorded this height as committed yet, it does now
	w.mu.Lock()
	if w.viewCancel != nil && w.viewBusy {
		// nothing that is still on offer may refer to a round of a height being finalized
		close(w.viewCancel)
		w.viewCancel = nil
		w.viewBusy = false
	}
	_, already := w.committed[h]
	rd := w.rounds[fmt.Sprintf("%d/%d", h, fr.Round)]
	w.mu.Unlock()
	if !already && rd != nil {
		var p uint64
		w.mu.Lock()
		for i := range rd.votes[1][hash] {
			p += w.pow(i)
		}
		w.mu.Unlock()
		if 3*p > 2*w.total() {
			w.commit(rd, hash)
		}
	}
	w.mu.Lock()
	defer w.mu.Unlock()
	w.finalizeAsked[h] = hash
	// rule 1
	if ch, ok := w.committed[h]; ok && w.replaying && string(ch.Header.Hash) == hash {
		return // the committed header was supplied during catch-up
	}
	tot := w.total()
	if w.shown == nil || w.shown.h != h || 3*w.shown.precommitPow[hash] <= 2*tot || hash == "" {
		var p uint64
		if w.shown != nil {
			p = w.shown.precommitPow[hash]
		}
		w.violate("C08/finalize-without-shown-quorum", "the driver was asked to finalize %x at height %d although the views shown to the state machine in its current round never had more than 2/3 precommit power for it (max shown %d of %d)", hash, h, p, tot)
	}
}

func (w *smWorld) onEntrance(re tmeil.StateMachineRoundEntrance, lateStart bool) {
	s := w.s
	w.event("state machine enters %d/%d", re.H, re.R)
	w.mu.Lock()
	prevH, prevR, had := w.smH, w.smR, w.entered
	// C08: forwards only
	if had && (re.H < prevH || (re.H == prevH && re.R <= prevR)) {
		w.violate("C08/round-regress", "entered %d/%d after %d/%d", re.H, re.R, prevH, prevR)
	}
	if had && re.H == prevH+1 {
		if !w.finalizeResp[prevH] || !w.finSaved[prevH] {
			w.violate("C08/next-height-before-finalization-stored", "entered height %d although the finalization of %d was answered=%t stored=%t", re.H, prevH, w.finalizeResp[prevH], w.finSaved[prevH])
		}
	}
	if had && re.H > prevH+1 {
		w.violate("C08/height-skipped", "entered height %d from %d", re.H, prevH)
	}
	if had && re.H == prevH && re.R == prevR+1 {
		k := fmt.Sprintf("%d/%d", prevH, prevR)
		if w.advanceOK[k] == "" {
			w.violate("C08/round-left-without-cause", "left round %s for the next without a nil precommit quorum, a fully voted round without quorum, an elapsed precommit delay or a jump-ahead", k)
		}
	}
	if had && re.H == prevH && re.R > prevR+1 {
		w.violate("C08/round-skipped", "entered round %d/%d from %d/%d", re.H, re.R, prevH, prevR)
	}
	// C12a: no timer of the round being left may remain outstanding
	for _, t := range w.timers {
		if !t.cancelled && !t.fired {
			w.violate("C12/sm/timer-outlives-round", "the %s timer of %d/%d is still outstanding when the state machine enters %d/%d", t.kind, t.h, t.r, re.H, re.R)
		}
	}
	if w.viewCancel != nil && w.viewBusy {
		close(w.viewCancel)
		w.viewCancel = nil
		w.viewBusy = false
	}
	w.smH, w.smR, w.entered = re.H, re.R, true
	w.answered = false
	w.entrance = &re
	w.actions = re.Actions
	w.entrances = append(w.entrances, [2]uint64{re.H, uint64(re.R)})
	w.shown = nil
	w.replaying = false
	w.mu.Unlock()

	s.ParkID("sm", "mirror", "entrance-response")
	// the mirror is at least where the state machine is
	w.mu.Lock()
	w.cmH, w.cmR = re.H, re.R
	if re.H > w.netH || (re.H == w.netH && re.R > w.netR) {
		w.netH, w.netR = re.H, re.R
	}
	ch, behind := w.committed[re.H]
	w.mu.Unlock()
	if behind {
		// the network already committed this height: supply the committed header
		w.mu.Lock()
		w.replaying = true
		w.mu.Unlock()
		w.event("mirror answers entrance %d/%d with the committed header", re.H, re.R)
		re.Response <- tmeil.RoundEntranceResponse{CH: ch}
		w.mu.Lock()
		w.answered = true
		w.mu.Unlock()
		return
	}
	rd := w.round(re.H, re.R)
	if lateStart && len(rd.votes[0]) == 0 && len(rd.phs) == 0 {
		// votes of the others may already be there
		k := s.Choose("preload", 4)
		for i := 0; i < k; i++ {
			w.mutateRound(rd)
		}
	}
	v := w.vrv(rd)
	w.lastSent[fmt.Sprintf("%d/%d", rd.h, rd.r)] = v.Version
	w.noteShown(v)
	w.event("mirror answers entrance %d/%d with view v%d (%s)", re.H, re.R, v.Version, smViewDesc(v))
	re.Response <- tmeil.RoundEntranceResponse{VRV: v}
	w.mu.Lock()
	w.answered = true
	w.mu.Unlock()
}

func smViewDesc(v tmconsensus.VersionedRoundView) string {
	return fmt.Sprintf("phs=%d prevotes=%d/%v precommits=%d/%v", len(v.ProposedHeaders), v.VoteSummary.TotalPrevotePower, smPows(v.VoteSummary.PrevoteBlockPower), v.VoteSummary.TotalPrecommitPower, smPows(v.VoteSummary.PrecommitBlockPower))
}
func smPows(m map[string]uint64) string {
	var l []string
	for h, p := range m {
		l = append(l, fmt.Sprintf("%x:%d", trunc(h), p))
	}
	sort.Strings(l)
	return strings.Join(l, ",")
}

// drainActions collects what the state machine released (C02: must have been saved before).
func (w *smWorld) drainActions() {
	w.mu.Lock()
	pend := w.pendingActs
	w.pendingActs = nil
	w.mu.Unlock()
	for _, a := range pend {
		w.onAction(a)
	}
	for {
		w.mu.Lock()
		ch := w.actions
		w.mu.Unlock()
		if ch == nil {
			return
		}
		select {
		case a := <-ch:
			w.onAction(a)
		default:
			return
		}
	}
}

func (w *smWorld) onAction(a tmeil.StateMachineRoundAction) {
	w.mu.Lock()
	h, r := w.smH, w.smR
	w.mu.Unlock()
	rd := w.round(h, r)
	rk := fmt.Sprintf("%d/%d", h, r)
	check := func(kind, sig string) {
		w.mu.Lock()
		ok := w.saved[sig]
		w.released[sig] = true
		w.mu.Unlock()
		if !ok {
			w.violate("C02/released-before-saved/"+kind, "the %s of %d/%d reached the mirror although it is not recorded in the action store", kind, h, r)
		}
	}
	switch {
	case len(a.PH.Header.Hash) > 0:
		w.event("action: proposed header %x for %d/%d", trunc(string(a.PH.Header.Hash)), a.PH.Header.Height, a.PH.Round)
		check("proposal", string(a.PH.Signature))
		if a.PH.Header.Height != h || a.PH.Round != r {
			w.violate("C08/vote-for-wrong-round/proposal", "released a proposed header for %d/%d while in %d/%d", a.PH.Header.Height, a.PH.Round, h, r)
		}
		w.mu.Lock()
		rd.phs = append(rd.phs, a.PH)
		rd.version++
		w.mu.Unlock()
	case len(a.Prevote.Sig) > 0:
		w.event("action: prevote %x", trunc(a.Prevote.TargetHash))
		check("prevote", string(a.Prevote.Sig))
		w.mu.Lock()
		if w.prevoteOut[rk] {
			w.mu.Unlock()
			w.violate("C08/second-prevote", "a second prevote (for %x) was released in %s", a.Prevote.TargetHash, rk)
			w.mu.Lock()
		}
		w.prevoteOut[rk] = true
		ans := w.prevoteAnswers[rk]
		if !containsStr(ans, a.Prevote.TargetHash) {
			w.violate("C08/vote-target-not-from-strategy/prevote", "released a prevote for %x in %s but the strategy's answers were %x", a.Prevote.TargetHash, rk, ans)
		}
		if rd.votes[0][a.Prevote.TargetHash] == nil {
			rd.votes[0][a.Prevote.TargetHash] = map[int]bool{}
		}
		rd.votes[0][a.Prevote.TargetHash][0] = true
		rd.version++
		w.mu.Unlock()
	case len(a.Precommit.Sig) > 0:
		w.event("action: precommit %x", trunc(a.Precommit.TargetHash))
		check("precommit", string(a.Precommit.Sig))
		w.mu.Lock()
		ans := w.prevoteAnswers["pc/"+rk]
		if !containsStr(ans, a.Precommit.TargetHash) {
			w.violate("C08/vote-target-not-from-strategy/precommit", "released a precommit for %x in %s but the strategy's answers were %x", a.Precommit.TargetHash, rk, ans)
		}
		if rd.votes[1][a.Precommit.TargetHash] == nil {
			rd.votes[1][a.Precommit.TargetHash] = map[int]bool{}
		}
		rd.votes[1][a.Precommit.TargetHash][0] = true
		rd.version++
		w.mu.Unlock()
	}
}

// checkDue implements rule 4's "never asks": once a precommit decision is due and the state
// machine has consumed two further events in the same round without asking, it never will.
func (w *smWorld) checkDue() {
	w.mu.Lock()
	defer w.mu.Unlock()
	if !w.entered || !w.answered || w.replaying {
		return
	}
	k := fmt.Sprintf("%d/%d", w.smH, w.smR)
	at, due := w.decideDueAt[k]
	if !due || w.stratCalls["decide/"+k] > 0 {
		return
	}
	// only judged at quiescence: nothing parked, no view in flight, no timer that could still trigger it
	if len(w.s.Parked()) > 0 || w.viewBusy {
		return
	}
	for _, t := range w.timers {
		if !t.cancelled && !t.fired {
			return
		}
	}
	if w.finalizeAsked[w.smH] != "" || w.advanceOK[k] != "" {
		return // the round ended at once (commit or nil quorum): nothing is owed
	}
	if w.eventCount-at >= 2 {
		w.violate("C08/never-asks-decide-precommit/"+w.decideDueWhy[k], "in round %s a precommit decision became due (%s) but the strategy was never asked and the state machine is idle; shown: prevotes %v precommits %v", k, w.decideDueWhy[k], w.shown.prevotePow, w.shown.precommitPow)
	}
}

// mutateRound lets one of the other validators do something in rd (the view only grows).
func (w *smWorld) mutateRound(rd *smRound) bool {
	s := w.s
	switch s.ChooseW("mirror-mutation", []int{2, 5, 5}) {
	case 0:
		if len(rd.hidden) > 0 && s.Pct("late-proposal-arrives", 50) {
			// a proposed header that peers have been voting on reaches this node at last
			rd.phs = append(rd.phs, rd.hidden[0])
			rd.hidden = rd.hidden[1:]
			w.s.Probe("late_proposal_arrived")
			break
		}
		if len(rd.phs)+len(rd.hidden) >= 3 || rd.h != w.fixtureHeight() {
			return false
		}
		prop := 1 + s.Choose("proposer", w.n-1)
		ph := w.fx.NextProposedHeader([]byte(fmt.Sprintf("data-%d-%d-%d", rd.h, rd.r, prop)), prop)
		ph.Round = rd.r
		w.fx.RecalculateHash(&ph.Header)
		w.fx.SignProposal(context.Background(), &ph, prop)
		for _, have := range append(append([]tmconsensus.ProposedHeader(nil), rd.phs...), rd.hidden...) {
			if string(have.Header.Hash) == string(ph.Header.Hash) {
				return false
			}
		}
		if len(rd.hidden) == 0 && s.Pct("proposal-held-back", 35) {
			rd.hidden = append(rd.hidden, ph)
			return true // nothing this node can see has changed
		}
		rd.phs = append(rd.phs, ph)
	default:
		kind := 0
		if s.Pct("precommit", 45) {
			kind = 1
		}
		voter := 1 + s.Choose("voter", w.n-1)
		for _, set := range rd.votes[kind] {
			if set[voter] {
				return false // honest peers vote once per kind and round
			}
		}
		opts := []string{""}
		for _, ph := range rd.phs {
			opts = append(opts, string(ph.Header.Hash))
		}
		for _, ph := range rd.hidden {
			opts = append(opts, string(ph.Header.Hash))
		}
		hash := opts[s.Choose("vote-target", len(opts))]
		if rd.votes[kind][hash] == nil {
			rd.votes[kind][hash] = map[int]bool{}
		}
		rd.votes[kind][hash][voter] = true
	}
	rd.version++
	return true
}

func (w *smWorld) fixtureHeight() uint64 {
	ph := w.fx.NextProposedHeader(nil, 0)
	return ph.Header.Height
}

// mirrorActions are the moves of the environment besides releasing parks.
func (w *smWorld) mirrorActions() []vsimcore.Action {
	var acts []vsimcore.Action
	s := w.s
	w.mu.Lock()
	entered, h, r, busy, replaying := w.entered && w.answered, w.smH, w.smR, w.viewBusy, w.replaying
	w.mu.Unlock()
	if !entered || replaying {
		return nil
	}
	rd := w.round(h, r)
	rk := fmt.Sprintf("%d/%d", h, r)
	// 1. another validator acts in the SM's round
	acts = append(acts, vsimcore.Action{Name: "mirror: peer activity in " + rk, Weight: 6, Do: func() {
		w.mu.Lock()
		w.mutateRound(rd)
		w.mu.Unlock()
	}})
	// 2. hand the current view to the state machine (only newer versions, one at a time)
	if !busy && rd.version > w.lastSent[rk] {
		acts = append(acts, vsimcore.Action{Name: "mirror: send view " + rk, Weight: 8, Do: func() {
			w.mu.Lock()
			v := w.vrv(rd)
			w.viewBusy = true
			cancelSend := make(chan struct{})
			w.viewCancel = cancelSend
			msg := tmeil.StateMachineRoundView{VRV: v}
			_, hd := w.committed[h]
			if r < 3 && !hd && w.finalizeAsked[h] == "" && !w.blockQuorum(rd) && s.Pct("view-with-jump-ahead", 12) {
				// the kernel coalesces: one update carries the round's newest view and a jump-ahead to the
				// next round (the state machine was slow to read while the network moved on)
				nr := w.round(h, r+1)
				for i := 1; i < w.n && 3*w.votedPower(nr, 0) < w.total(); i++ {
					if nr.votes[0][""] == nil {
						nr.votes[0][""] = map[int]bool{}
					}
					nr.votes[0][""][i] = true
					nr.version++
				}
				jv := w.vrv(nr)
				msg.JumpAheadRoundView = &jv
				w.advanceOK[rk] = "jump-ahead"
				w.netR = r + 1
				w.s.Probe("view_and_jump_ahead_in_one_update")
			}
			w.mu.Unlock()
			go func() {
				select {
				case w.viewCh <- msg:
					w.mu.Lock()
					w.lastSent[rk] = v.Version
					w.viewBusy = false
					w.mu.Unlock()
					w.noteShown(v)
					w.event("view %s v%d delivered (%s) jump-ahead=%t", rk, v.Version, smViewDesc(v), msg.JumpAheadRoundView != nil)
				case <-cancelSend:
					// the state machine entered another round first: the kernel would never
					// complete this send (it takes the round entrance instead)
				case <-w.ctx.Done():
				}
			}()
		}})
	}
	// 3. fire the outstanding timer (virtual time jumps); a cancelled timer is fired late on purpose
	w.mu.Lock()
	for _, t := range w.timers {
		t := t
		if t.fired {
			continue
		}
		if !t.cancelled {
			acts = append(acts, vsimcore.Action{Name: "timer elapses: " + t.kind + " " + rk, Weight: 2, Do: func() {
				w.mu.Lock()
				t.fired = true
				if t.kind == "precommitdelay" {
					w.advanceOK[fmt.Sprintf("%d/%d", t.h, t.r)] = "precommit delay elapsed"
				}
				if t.kind == "prevotedelay" {
					if _, ok := w.decideDueAt[fmt.Sprintf("%d/%d", t.h, t.r)]; !ok {
						w.decideDueAt[fmt.Sprintf("%d/%d", t.h, t.r)] = w.eventCount
						w.decideDueWhy[fmt.Sprintf("%d/%d", t.h, t.r)] = "prevote-delay-elapsed"
					}
				}
				w.mu.Unlock()
				w.event("timer %s %d/%d elapses", t.kind, t.h, t.r)
				close(t.ch)
			}})
		}
	}
	w.mu.Unlock()
	// 3b. virtual time passes (200 ms): anything the state machine does under a wall-clock guard is exposed
	// (only in a third of the runs: the two known 100 ms "blocked send" panics would otherwise end one run in five)
	if w.clockPasses {
		acts = append(acts, vsimcore.Action{Name: "clock advances 200ms", Weight: 1, Do: func() { time.Sleep(200 * time.Millisecond) }})
	}
	// 3c. the data of a proposed block arrives at the driver, which tells the state machine
	w.mu.Lock()
	var dataIDs []string
	for _, ph := range rd.phs {
		dataIDs = append(dataIDs, string(ph.Header.DataID))
	}
	w.mu.Unlock()
	dataIDs = append(dataIDs, "data-nobody-proposed")
	if len(w.blockDataCh) < cap(w.blockDataCh) {
		acts = append(acts, vsimcore.Action{Name: "block data arrives " + rk, Weight: 1, Do: func() {
			a := tmelink.BlockDataArrival{Height: h, Round: r, ID: dataIDs[s.Choose("block-data-id", len(dataIDs))]}
			if s.Pct("block-data-other-round", 10) {
				a.Round++
			}
			w.event("block data %q arrives for %d/%d", a.ID, a.Height, a.Round)
			w.s.Probe("block_data_arrival")
			select {
			case w.blockDataCh <- a:
			default:
			}
		}})
	}
	// 4. the network moves on: jump-ahead to a later round of this height
	w.mu.Lock()
	_, heightDone := w.committed[h]
	asked := w.finalizeAsked[h] != ""
	w.mu.Unlock()
	quorumInRound := false
	w.mu.Lock()
	for hsh, set := range rd.votes[1] {
		var pp uint64
		for i := range set {
			pp += w.pow(i)
		}
		if hsh != "" && 3*pp > 2*w.total() {
			quorumInRound = true // the mirror would commit this height, not skip the round
		}
	}
	w.mu.Unlock()
	if !busy && s.Steps > 5 && r < 3 && !heightDone && !asked && !quorumInRound {
		acts = append(acts, vsimcore.Action{Name: "mirror: jump ahead from " + rk, Weight: 1, Do: func() {
			nr := w.round(h, r+1)
			w.mu.Lock()
			// the votes that justify the jump: at least 1/3 of the power prevoted in the later round
			for i := 1; i < w.n && 3*w.votedPower(nr, 0) < w.total(); i++ {
				if nr.votes[0][""] == nil {
					nr.votes[0][""] = map[int]bool{}
				}
				nr.votes[0][""][i] = true
				nr.version++
			}
			v := w.vrv(nr)
			w.advanceOK[rk] = "jump-ahead"
			w.netR = r + 1
			w.viewBusy = true
			cancelSend := make(chan struct{})
			w.viewCancel = cancelSend
			w.mu.Unlock()
			w.event("mirror offers jump-ahead to %d/%d", h, r+1)
			go func() {
				select {
				case w.viewCh <- tmeil.StateMachineRoundView{JumpAheadRoundView: &v}:
					w.mu.Lock()
					w.viewBusy = false
					w.mu.Unlock()
					w.event("jump-ahead to %d/%d delivered", h, r+1)
				case <-cancelSend:
				case <-w.ctx.Done():
				}
			}()
		}})
	}
	// 5. the network commits this height (when the model holds a quorum): height-committed signal
	for hash, set := range rd.votes[1] {
		if hash == "" {
			continue
		}
		var p uint64
		for i := range set {
			p += w.pow(i)
		}
		hash := hash
		if 3*p > 2*w.total() {
			w.mu.Lock()
			_, already := w.committed[h]
			w.mu.Unlock()
			if !already {
				acts = append(acts, vsimcore.Action{Name: "mirror: network commits " + rk, Weight: 4, Do: func() { w.commit(rd, hash) }})
			}
		}
	}
	return acts
}

// blockQuorum reports (with w.mu held) whether some block has more than 2/3 of the precommit power in rd.
func (w *smWorld) blockQuorum(rd *smRound) bool {
	for hsh, set := range rd.votes[1] {
		var pp uint64
		for i := range set {
			pp += w.pow(i)
		}
		if hsh != "" && 3*pp > 2*w.total() {
			return true
		}
	}
	return false
}

func (w *smWorld) votedPower(rd *smRound, kind int) uint64 {
	seen := map[int]bool{}
	var p uint64
	for _, set := range rd.votes[kind] {
		for i := range set {
			if !seen[i] {
				seen[i] = true
				p += w.pow(i)
			}
		}
	}
	return p
}

// commit records the height as committed in the model and advances the fixture.
func (w *smWorld) commit(rd *smRound, hash string) {
	w.mu.Lock()
	var hdr *tmconsensus.Header
	for i := range rd.phs {
		if string(rd.phs[i].Header.Hash) == hash {
			hdr = &rd.phs[i].Header
		}
	}
	if hdr == nil {
		w.mu.Unlock()
		return
	}
	v := w.vrv(rd)
	proof := tmconsensus.CommitProof{Round: rd.r, PubKeyHash: string(w.fx.ValSet().PubKeyHash), Proofs: map[string][]gcrypto.SparseSignature{}}
	for hsh, p := range v.PrecommitProofs {
		proof.Proofs[hsh] = p.AsSparse().Signatures
	}
	w.committed[rd.h] = tmconsensus.CommittedHeader{Header: *hdr, Proof: proof}
	w.fx.CommitBlock(*hdr, []byte(fmt.Sprintf("app-%d", rd.h)), rd.r, v.PrecommitProofs)
	w.netH, w.netR = rd.h+1, 0
	hc := w.entrance.HeightCommitted
	enH := w.entrance.H
	w.mu.Unlock()
	w.event("network commits height %d (%x) in round %d", rd.h, trunc(hash), rd.r)
	_ = hc
	_ = enH
}
