//go:build verif

// Package vsimsm holds the simulation harnesses for the round state machine and the
// production round timer. Copied into a scratch copy of the repository by /verif/check.
package vsimsm

import (
	"context"
	"fmt"
	"time"

	"github.com/gordian-engine/gordian/internal/vsimcore"
	"github.com/gordian-engine/gordian/tm/tmengine/internal/tmstate"
)

var Harnesses = map[string]vsimcore.Harness{}

func init() { Harnesses["timer"] = runTimer }

// H-TIMER: the real StandardRoundTimer on the bubble's fake clock. vinst gives its selects the
// seeded pre-pass and makes its goroutine stoppable between statements. A caller goroutine
// performs seeded sequences of start / cancel / cancel+start / wait-for-elapse / start-after-
// elapse (never a start while a timer is outstanding: that is the caller's side of the contract).

type fixedTimeouts struct{ d [4]time.Duration }

func (f fixedTimeouts) ProposalTimeout(uint64, uint32) time.Duration       { return f.d[0] }
func (f fixedTimeouts) PrevoteDelayTimeout(uint64, uint32) time.Duration   { return f.d[1] }
func (f fixedTimeouts) PrecommitDelayTimeout(uint64, uint32) time.Duration { return f.d[2] }
func (f fixedTimeouts) CommitWaitTimeout(uint64, uint32) time.Duration     { return f.d[3] }

type tmTimer struct {
	id        int
	ch        <-chan struct{}
	cancel    func()
	deadline  time.Duration // sim time
	cancelled bool
	closedAt  time.Duration
	closed    bool
}

func runTimer(s *vsimcore.Sim, p vsimcore.Params) vsimcore.RunInfo {
	var info vsimcore.RunInfo
	nOps := 3 + s.Choose("ops", 10)
	durs := fixedTimeouts{}
	for i := range durs.d {
		durs.d[i] = time.Duration(1+s.Choose("dur", 5)) * time.Second
	}
	// the caller's script
	type op struct {
		kind string // start | cancel | cancelstart | await
		tk   int
	}
	var script []op
	outstanding := false
	for i := 0; i < nOps; i++ {
		if !outstanding {
			script = append(script, op{"start", s.Choose("timerkind", 4)})
			outstanding = true
			continue
		}
		switch s.ChooseW("op", []int{3, 4, 3}) {
		case 0:
			script = append(script, op{"cancel", 0})
			outstanding = false
		case 1:
			script = append(script, op{"cancelstart", s.Choose("timerkind", 4)})
		case 2:
			script = append(script, op{"await", 0})
			outstanding = false
		}
	}
	var timers []*tmTimer
	var sample []string
	s.Attach()
	defer vsimcore.Detach()
	s.Bubble(func() {
		ctx, cancel := context.WithCancel(context.Background())
		rt := tmstate.NewStandardRoundTimer(vsimcore.WithIdent(ctx, "timer"), durs)
		cctx := vsimcore.WithIdent(ctx, "caller")
		var cur *tmTimer
		waiting := false // caller is blocked in an await
		callerDone := make(chan struct{})
		start := func(tk int) {
			var ch <-chan struct{}
			var cf func()
			switch tk {
			case 0:
				ch, cf = rt.ProposalTimer(cctx, 1, 0)
			case 1:
				ch, cf = rt.PrevoteDelayTimer(cctx, 1, 0)
			case 2:
				ch, cf = rt.PrecommitDelayTimer(cctx, 1, 0)
			default:
				ch, cf = rt.CommitWaitTimer(cctx, 1, 0)
			}
			cur = &tmTimer{id: len(timers), ch: ch, cancel: cf, deadline: s.SimTime() + durs.d[tk]}
			timers = append(timers, cur)
			s.Logf("caller: started timer %d kind %d", cur.id, tk)
		}
		go func() {
			defer close(callerDone)
			for _, o := range script {
				s.Park(cctx, "caller", o.kind)
				switch o.kind {
				case "start":
					start(o.tk)
				case "cancel":
					cur.cancel()
					cur.cancelled = true
					s.Logf("caller: cancelled timer %d", cur.id)
				case "cancelstart":
					cur.cancel()
					cur.cancelled = true
					s.Logf("caller: cancelled timer %d, starting the next at once", cur.id)
					start(o.tk)
				case "await":
					waiting = true
					select {
					case <-cur.ch:
					case <-ctx.Done():
					}
					waiting = false
					s.Logf("caller: observed timer %d elapsed", cur.id)
				}
			}
		}()
		check := func() {
			now := s.SimTime()
			for _, t := range timers {
				if t.closed || t.ch == nil {
					continue
				}
				select {
				case <-t.ch:
					t.closed, t.closedAt = true, now
					if t.cancelled {
						s.Violate("C12/timer/cancelled-timer-elapsed", "timer %d reported elapsed although it had been cancelled before", t.id)
					}
					if now < t.deadline {
						s.Violate("C12/timer/elapsed-early", "timer %d elapsed at %v, before its deadline %v", t.id, now, t.deadline)
					}
				default:
				}
			}
		}
		for s.Steps < 4000 && !s.Failed() {
			vsimcore.Wait()
			check()
			acts := s.ParkActions(nil)
			// time may pass whenever the caller is not in the middle of a call
			if cur != nil && !cur.cancelled && !cur.closed {
				w := 1
				if waiting && len(acts) == 0 {
					w = 1
				}
				if len(acts) == 0 || s.SimTime() < cur.deadline+time.Second {
					acts = append(acts, vsimcore.Action{Name: "advance clock 1s", Weight: w, Do: func() { time.Sleep(time.Second) }})
				}
			}
			if len(acts) == 0 {
				break
			}
			s.Pick(acts)
		}
		vsimcore.Wait()
		check()
		select {
		case <-callerDone:
		default:
			if !s.Failed() {
				s.Violate("C12/timer/caller-stuck", "the caller did not finish its script (a start request or an await never returned); parked: %v", s.Parked())
			}
		}
		// an armed, uncancelled timer must fire once its deadline has passed
		for _, t := range timers {
			if !t.cancelled && !t.closed && s.SimTime() > t.deadline+time.Second && !s.Failed() {
				s.Violate("C12/timer/never-fired", "timer %d neither cancelled nor elapsed %v after its deadline", t.id, s.SimTime()-t.deadline)
			}
		}
		info.SimNs = int64(s.SimTime())
		cancel()
		s.Stop()
		rt.Wait()
	})
	nCS := 0
	for _, o := range script {
		sample = append(sample, fmt.Sprintf("%s(%d)", o.kind, o.tk))
		if o.kind == "cancelstart" {
			nCS++
		}
	}
	if nCS > 0 {
		s.Probe("cancel_then_immediate_start")
	}
	info.Nontrivial = len(script) >= 3
	info.States = []string{fmt.Sprintf("ops%d/cs%d/t%d", min(len(script), 6), min(nCS, 3), min(len(timers), 5))}
	info.Sample = map[string]any{"harness": "timer", "script": sample, "timeouts": fmt.Sprint(durs.d)}
	return info
}
