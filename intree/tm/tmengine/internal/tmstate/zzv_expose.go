//go:build verif

package tmstate

// VzDone is closed when the state machine's kernel goroutine has exited
// (harness accessor, copied into a scratch copy of the repository by /verif/check).
func (m *StateMachine) VzDone() <-chan struct{} { return m.kernelDone }
