//go:build verif

package tmi

// VzDone is closed when the kernel's main loop has exited (harness accessor).
func (k *Kernel) VzDone() <-chan struct{} { return k.done }
