//go:build verif

package tmmirror

// VzDone is closed when the mirror kernel has exited (harness accessor).
func (m *Mirror) VzDone() <-chan struct{} { return m.k.VzDone() }
