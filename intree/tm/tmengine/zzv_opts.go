//go:build verif

package tmengine

// H-OPTS: construction of an engine or a standalone mirror from seeded combinations of the
// documented options (C09, first sentence). Each run builds one option list: the complete valid
// set with a seeded subset left out, optionally some options that must be rejected (a buffered lag
// state or metrics channel), in a seeded order; then calls tmengine.New or tmengine.NewMirror inside
// the bubble while a driver answers InitChain. Oracle:
//   - no panic, neither in the constructor nor in a goroutine it started (the latter kills the worker
//     and is classified by the runner);
//   - the constructor returns (it must not block forever once the driver has answered);
//   - an error names every required option that was left out and every rejected option;
//   - success is only allowed when nothing required is missing and nothing was rejected, and the
//     instance then keeps running (its goroutines are alive at quiescence) and stops on cancel.

import (
	"bytes"
	"context"
	"fmt"
	"sort"
	"strings"
	"time"

	"github.com/gordian-engine/gordian/gwatchdog"
	"github.com/gordian-engine/gordian/internal/vsimcore"
	"github.com/gordian-engine/gordian/tm/tmconsensus"
	"github.com/gordian-engine/gordian/tm/tmdriver"
	"github.com/gordian-engine/gordian/tm/tmengine/tmelink"
	"github.com/gordian-engine/gordian/tm/tmgossip"
)

func init() { vzHarnesses["opts"] = runOpts }

type vzOptSpec struct {
	name           string // the With* function
	requiredEngine bool
	requiredMirror bool
	mirrorRelevant bool // a mirror-only construction may carry it
	opt            Opt
}

func runOpts(s *vsimcore.Sim, p vsimcore.Params) vsimcore.RunInfo {
	var info vsimcore.RunInfo
	cfg := vzConfig{oracles: vzOracleSet(p), initialHeight: 1, maxSteps: 400, nVal: 4}
	cfg.powers = []uint64{100, 100, 100, 100}
	if s.Pct("initial-height", 25) {
		cfg.initialHeight = uint64(2 + s.Choose("ih", 40))
	}
	w := newVzWorld(s, cfg)
	mirrorOnly := s.Pct("mirror-only", 35)
	withSigner := s.Pct("with-signer", 70)

	var left, rejected []string
	var outcome string
	fill := func() {
		info.Nontrivial = len(left)+len(rejected) > 0
		info.States = []string{fmt.Sprintf("mirror=%t/left=%d/rej=%d/%s", mirrorOnly, len(left), len(rejected), outcome)}
		info.Sample = map[string]any{"harness": "opts", "mirror_only": mirrorOnly, "left_out": left, "rejected_options": rejected, "outcome": outcome}
		info.Extra = map[string]int{"options_left_out": len(left), "options_rejected": len(rejected)}
	}
	s.Bubble(func() {
		w.rootCtx, w.rootCancel = context.WithCancel(context.Background())
		nd := w.addNode(0, false)
		nd.inc = 1
		ctx, cancel := context.WithCancel(vsimcore.WithIdent(w.rootCtx, nd.ident()))
		defer cancel()
		nlog := w.log.With("vznode", nd.ident())
		wd, wctx := gwatchdog.NewNopWatchdog(ctx, nlog)
		nd.ctx = wctx
		st := vzStores{nd: nd, d: nd.disk}
		bc := vzBroadcaster{make(chan tmconsensus.ProposedHeader), make(chan tmconsensus.PrevoteSparseProof), make(chan tmconsensus.PrecommitSparseProof)}
		gs := tmgossip.NewChattyStrategy(wctx, nlog, bc)
		initCh := make(chan tmdriver.InitChainRequest, 1)
		finCh := make(chan tmdriver.FinalizeBlockRequest)
		go func() { // the driver
			ic := initCh
			for {
				select {
				case <-wctx.Done():
					return
				case req, ok := <-ic:
					if !ok {
						ic = nil
						continue
					}
					select {
					case req.Resp <- tmdriver.InitChainResponse{AppStateHash: []byte("app-genesis")}:
					case <-wctx.Done():
						return
					}
				case <-finCh:
				case <-bc.ph:
				case <-bc.pv:
				case <-bc.pc:
				}
			}
		}()
		eg := &tmconsensus.ExternalGenesis{ChainID: "vsim-chain", InitialHeight: cfg.initialHeight, InitialAppState: new(bytes.Buffer), GenesisValidatorSet: w.fx.ValSet()}
		strat := &vzStrategy{nd: nd, inc: 1}
		specs := []vzOptSpec{
			{"WithGenesis", true, true, true, WithGenesis(eg)},
			{"WithCommittedHeaderStore", true, true, true, WithCommittedHeaderStore(vzCommittedHeaderStore{st})},
			{"WithFinalizationStore", true, false, false, WithFinalizationStore(vzFinalizationStore{st})},
			{"WithMirrorStore", true, true, true, WithMirrorStore(vzMirrorStore{st})},
			{"WithRoundStore", true, true, true, WithRoundStore(vzRoundStore{st})},
			{"WithStateMachineStore", true, false, false, WithStateMachineStore(vzStateMachineStore{st})},
			{"WithValidatorStore", true, true, true, WithValidatorStore(vzValidatorStore{st})},
			{"WithActionStore", withSigner, false, false, WithActionStore(vzActionStore{st})},
			{"WithHashScheme", true, true, true, WithHashScheme(w.fx.HashScheme)},
			{"WithSignatureScheme", true, true, true, WithSignatureScheme(w.fx.SignatureScheme)},
			{"WithCommonMessageSignatureProofScheme", true, true, true, WithCommonMessageSignatureProofScheme(w.fx.CommonMessageSignatureProofScheme)},
			{"WithGossipStrategy", true, false, true, WithGossipStrategy(gs)},
			{"WithConsensusStrategy", true, false, false, WithConsensusStrategy(strat)},
			{"WithInitChainChannel", true, false, false, WithInitChainChannel(initCh)},
			{"WithBlockFinalizationChannel", true, false, false, WithBlockFinalizationChannel(finCh)},
			{"WithTimeoutStrategy", true, false, false, WithInternalRoundTimer(vzRT{nd, 1})},
			{"WithWatchdog", true, true, true, WithWatchdog(wd)},
			{"WithLagStateChannel", false, false, true, WithLagStateChannel(make(chan tmelink.LagState))},
			{"WithReplayedHeaderRequestChannel", false, false, true, WithReplayedHeaderRequestChannel(make(chan tmelink.ReplayedHeaderRequest))},
			{"WithBlockDataArrivalChannel", false, false, false, WithBlockDataArrivalChannel(make(chan tmelink.BlockDataArrival))},
		}
		if withSigner {
			specs = append(specs, vzOptSpec{"WithSigner", false, false, false, WithSigner(vzSigner{nd: nd, inc: 1, inner: tmconsensus.PassthroughSigner{Signer: w.fx.PrivVals[0].Signer, SignatureScheme: w.fx.SignatureScheme}})})
		}
		// what to leave out: most runs 0-2 options, some up to 5
		nLeave := []int{0, 1, 1, 2, 2, 3, 5}[s.Choose("leave-how-many", 7)]
		var opts []vzOptSpec
		pool := append([]vzOptSpec(nil), specs...)
		if mirrorOnly && s.Pct("mirror-relevant-only", 60) {
			// most standalone mirrors are given only what a mirror uses
			pool = pool[:0]
			for _, sp := range specs {
				if sp.mirrorRelevant {
					pool = append(pool, sp)
				} else if sp.requiredEngine || sp.name == "WithSigner" {
					// not offered; not required for a mirror either
				}
			}
		}
		leave := map[int]bool{}
		for i := 0; i < nLeave && len(leave) < len(pool); i++ {
			leave[s.Choose("leave-which", len(pool))] = true
		}
		missingRequired := map[string]bool{}
		for i, sp := range pool {
			if leave[i] {
				left = append(left, sp.name)
				if (mirrorOnly && sp.requiredMirror) || (!mirrorOnly && sp.requiredEngine) {
					missingRequired[sp.name] = true
				}
				continue
			}
			opts = append(opts, sp)
		}
		if mirrorOnly {
			for _, sp := range specs { // required mirror options that the reduced pool does not contain cannot be missing
				_ = sp
			}
		}
		// options that must be rejected, inserted at seeded positions (an early rejection must survive later options)
		nBad := []int{0, 0, 1, 1, 2}[s.Choose("rejected-how-many", 5)]
		for i := 0; i < nBad; i++ {
			var sp vzOptSpec
			if s.Pct("bad-lag", 50) {
				sp = vzOptSpec{name: "WithLagStateChannel(buffered)", opt: WithLagStateChannel(make(chan tmelink.LagState, 1))}
			} else {
				sp = vzOptSpec{name: "WithMetricsChannel(buffered)", opt: WithMetricsChannel(make(chan Metrics, 1))}
			}
			rejected = append(rejected, sp.name)
			pos := s.Choose("bad-pos", len(opts)+1)
			opts = append(opts[:pos], append([]vzOptSpec{sp}, opts[pos:]...)...)
		}
		// seeded order of the rest (options are documented as independent)
		if s.Pct("shuffle", 50) {
			for i := len(opts) - 1; i > 0; i-- {
				j := s.Choose("shuffle", i+1)
				opts[i], opts[j] = opts[j], opts[i]
			}
		}
		sort.Strings(left)
		signerPassed := false
		for _, sp := range opts {
			if sp.name == "WithSigner" {
				signerPassed = true
			}
		}
		if !signerPassed {
			delete(missingRequired, "WithActionStore")
		}
		var missing []string
		for name := range missingRequired {
			missing = append(missing, name)
		}
		sort.Strings(missing)
		var names []string
		var ol []Opt
		for _, sp := range opts {
			names = append(names, sp.name)
			ol = append(ol, sp.opt)
		}
		s.Logf("construct mirrorOnly=%t options=%v left out=%v", mirrorOnly, names, left)

		type res struct {
			err      error
			panicked any
			e        *Engine
			m        Mirror
		}
		done := make(chan res, 1)
		go func() {
			var r res
			defer func() {
				if x := recover(); x != nil {
					r.panicked = x
				}
				done <- r
			}()
			if mirrorOnly {
				r.m, r.err = NewMirror(wctx, nlog, ol...)
			} else {
				r.e, r.err = New(wctx, nlog, ol...)
			}
		}()
		var r res
		returned := false
		for i := 0; i < 50 && !returned; i++ {
			vsimcore.Wait()
			for _, n := range s.Parked() { // store writes etc. are not interesting here: let everything pass
				s.Release(n)
			}
			select {
			case r = <-done:
				returned = true
			default:
				time.Sleep(100 * time.Millisecond)
			}
		}
		what := "tmengine.New"
		if mirrorOnly {
			what = "tmengine.NewMirror"
		}
		switch {
		case !returned:
			outcome = "blocked"
			w.orc.violate("C09", "constructor-never-returns", "%s with options %v (left out %v) has not returned although the driver answers", what, names, left)
		case r.panicked != nil:
			outcome = "panic"
			w.orc.violate("C09", "constructor-panics/"+vzSkeleton(fmt.Sprint(r.panicked)), "%s with options %v (left out %v) panicked: %v", what, names, left, r.panicked)
		case r.err != nil:
			outcome = "error"
			msg := r.err.Error()
			// "reports every rejected option": options the constructor refuses must all be named. For
			// options that are merely missing the property asks for a descriptive error: it has to name
			// at least one of them (validation may be staged), unless it is busy reporting rejections.
			if len(rejected) == 0 && len(missing) > 0 {
				named := false
				for _, name := range missing {
					if strings.Contains(msg, name) {
						named = true
					}
				}
				if !named {
					w.orc.violate("C09", "error-names-no-missing-option", "%s with options %v (left out %v) returned an error that names none of the missing required options %v: %q", what, names, left, missing, msg)
				}
			}
			for _, name := range rejected {
				fn := name[:strings.Index(name, "(")]
				if !strings.Contains(msg, fn) {
					w.orc.violate("C09", "error-omits-rejected-option/"+fn, "%s with options %v returned an error that does not report the rejected option %s: %q", what, names, name, msg)
				}
			}
			if len(missing) == 0 && len(rejected) == 0 {
				w.orc.violate("C09", "valid-options-refused", "%s refused a complete valid option list %v: %q", what, names, msg)
			}
		default:
			outcome = "running"
			if len(rejected) > 0 {
				w.orc.violate("C09", "rejected-option-error-lost", "%s with options %v returned an instance although %v must be rejected", what, names, rejected)
			}
			for _, name := range missing {
				w.orc.violate("C09", "missing-required-option-accepted/"+name, "%s returned an instance although the required option %s was left out (options %v)", what, name, names)
			}
			// the instance keeps running
			for i := 0; i < 10; i++ {
				vsimcore.Wait()
				for _, n := range s.Parked() {
					s.Release(n)
				}
				time.Sleep(100 * time.Millisecond)
			}
			if r.e != nil {
				if r.e.sm != nil {
					select {
					case <-r.e.sm.VzDone():
						w.orc.violate("C09", "constructed-engine-stops/statemachine", "the engine built from options %v (left out %v) lost its state machine goroutine right after construction", names, left)
					default:
					}
				}
			}
		}
		fill()
		s.Checkpoint(info)
		s.Freeze()
		s.Stop()
		cancel()
		w.rootCancel()
		if r.e != nil {
			r.e.Wait()
		}
		if r.m != nil {
			r.m.Wait()
		}
		gs.Wait()
		wd.Wait()
		time.Sleep(time.Second)
	})
	fill()
	return info
}
