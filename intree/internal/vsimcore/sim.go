// Package vsimcore is the core of the deterministic simulator used by /verif:
// one seeded PRNG / choice log, parks, the scheduler step, the event log and counters.
// It is copied into a scratch copy of the repository by /verif/check; it is never part of /repo.
package vsimcore

import (
	"context"
	"crypto/sha256"
	"encoding/hex"
	"fmt"
	"math/rand/v2"
	"os"
	"sort"
	"strings"
	"sync"
	"sync/atomic"
	"testing"
	"testing/synctest"
	"time"

	"github.com/gordian-engine/gordian/internal/vsel"
)

type identKey struct{}

// WithIdent attaches a schedule-independent identity (node id, message id, client id) to ctx.
func WithIdent(ctx context.Context, id string) context.Context {
	return context.WithValue(ctx, identKey{}, id)
}

func Ident(ctx context.Context) string {
	if ctx == nil {
		return ""
	}
	id, _ := ctx.Value(identKey{}).(string)
	return id
}

type parkOp struct {
	name    string
	release chan struct{}
}

// Violation is an oracle failure. Key must be stable (no numbers that vary between
// manifestations of the same defect); Detail is free text.
type Violation struct {
	Key    string `json:"key"`
	Detail string `json:"detail"`
}

// Action is something the scheduler may do next.
type Action struct {
	Name   string
	Weight int // <=0 means 1
	Do     func()
}

type Sim struct {
	T    *testing.T
	Seed uint64

	rng       *rand.Rand
	replaying bool
	replay    []int
	replayPos int
	Choices   []int
	choiceLog func(int) // optional streaming sink (crash capture)

	mu       sync.Mutex
	pending  map[string]*parkOp
	counters map[string]int
	stopped  bool
	frozen   bool
	dead     []string
	selCtr   map[string]uint64

	hash      [32]byte
	stepBuf   []string
	trace     []string
	traceAll  bool
	traceDrop int
	Steps     int
	start     time.Time // bubble fake time at start (set by harness if it wants sim time)

	Faults map[string]int
	Probes map[string]int

	violation *Violation

	// checkpoint, set by the worker, emits the provisional result of the run; harnesses call
	// Checkpoint right before they tear the system down, so that a panic of a system goroutine
	// during shutdown cannot take the finished run's verdict with it.
	checkpoint func(RunInfo)
	note       func(string)

	expired atomic.Bool // set by the worker's wall-clock watchdog (real time, outside the bubble)

	// KnownKeys are violation classes recorded as open known findings: they are counted,
	// not treated as the run's violation, so that the rest of the run is still explored.
	KnownKeys map[string]bool
	KnownHit  map[string]int

	// ParkFilter decides whether a gchan yield parks (true) or passes through.
	ParkFilter func(ctx context.Context, id, op, label string) bool
}

const traceKeep = 300

// liveTrace streams every log line to stderr as it is produced (debugging crashes).
var liveTrace = os.Getenv("VSIM_LIVE_TRACE") != ""
var debugActs = os.Getenv("VSIM_DEBUG_ACTS") != ""

func NewSim(t *testing.T, seed uint64, replay []int, replaying bool) *Sim {
	s := &Sim{
		T:         t,
		Seed:      seed,
		rng:       rand.New(rand.NewPCG(seed, 0x9e3779b97f4a7c15)),
		replaying: replaying,
		replay:    replay,
		pending:   map[string]*parkOp{},
		counters:  map[string]int{},
		selCtr:    map[string]uint64{},
		Faults:    map[string]int{},
		Probes:    map[string]int{},
	}
	return s
}

func (s *Sim) SetTraceAll(b bool)        { s.traceAll = b }
func (s *Sim) SetChoiceSink(f func(int)) { s.choiceLog = f }
func (s *Sim) Replaying() bool           { return s.replaying }

// Choose returns a value in [0,n). Every decision of a run goes through here
// (or ChooseW), so the choice log together with the code decides the run.
// Option 0 should be the most benign alternative.
func (s *Sim) Choose(kind string, n int) int {
	if n <= 1 {
		return 0
	}
	var v int
	if s.replaying {
		if s.replayPos < len(s.replay) {
			v = s.replay[s.replayPos]
			s.replayPos++
			if v < 0 {
				v = 0
			}
			v %= n
		}
	} else {
		v = s.rng.IntN(n)
	}
	s.Choices = append(s.Choices, v)
	if s.choiceLog != nil {
		s.choiceLog(v)
	}
	return v
}

// ChooseFixed records v (mod n) as a choice. In a seeded run the harness supplies v (used to enumerate
// a fault position across a batch of seeds); in a replay the logged value is used.
func (s *Sim) ChooseFixed(kind string, n, v int) int {
	if n <= 1 {
		return 0
	}
	if s.replaying {
		return s.Choose(kind, n)
	}
	v %= n
	s.Choices = append(s.Choices, v)
	if s.choiceLog != nil {
		s.choiceLog(v)
	}
	return v
}

// Reseed replaces the PRNG of a seeded run (no effect on a replay, whose choices come from the log).
// Harnesses that enumerate a fault position over one scripted history derive the history from x.
func (s *Sim) Reseed(x uint64) {
	s.rng = rand.New(rand.NewPCG(x, 0x9e3779b97f4a7c15))
}

// ChooseW picks an index with probability proportional to its weight (0 = never); the index is what is logged.
func (s *Sim) ChooseW(kind string, weights []int) int {
	n := len(weights)
	if n <= 1 {
		return 0
	}
	var v int
	if s.replaying {
		if s.replayPos < len(s.replay) {
			v = s.replay[s.replayPos]
			s.replayPos++
			if v < 0 {
				v = 0
			}
			v %= n
			if weights[v] <= 0 {
				v = 0 // a disabled alternative stays disabled in edited replays
			}
		}
	} else {
		total := 0
		for _, w := range weights {
			if w > 0 {
				total += w
			}
		}
		if total > 0 {
			x := s.rng.IntN(total)
			for i, w := range weights {
				if w <= 0 {
					continue
				}
				if x < w {
					v = i
					break
				}
				x -= w
			}
		}
	}
	s.Choices = append(s.Choices, v)
	if s.choiceLog != nil {
		s.choiceLog(v)
	}
	return v
}

// Pct is true with probability p/100 (false is the benign answer, logged as 0).
func (s *Sim) Pct(kind string, p int) bool {
	if p <= 0 {
		return false
	}
	if p >= 100 {
		return true
	}
	return s.ChooseW(kind, []int{100 - p, p}) == 1
}

// Logf appends a line to the event log. It never draws from the PRNG or reads a clock.
// Lines logged between two scheduler steps are sorted before they enter the hash: several
// system goroutines may run (and log) concurrently within one step, and their relative order
// is not a scheduling decision.
func (s *Sim) Logf(f string, a ...any) {
	line := fmt.Sprintf(f, a...)
	if liveTrace {
		fmt.Fprintln(os.Stderr, "T", line)
	}
	s.mu.Lock()
	if !s.stopped { // goroutines unwinding after the end of the run do not belong to the trace
		s.stepBuf = append(s.stepBuf, line)
	}
	s.mu.Unlock()
}

// flushStep folds the lines of the finished step into the hash and the trace.
func (s *Sim) flushStep() {
	s.mu.Lock()
	buf := s.stepBuf
	s.stepBuf = nil
	sort.Strings(buf)
	for _, line := range buf {
		h := sha256.New()
		h.Write(s.hash[:])
		h.Write([]byte(line))
		copy(s.hash[:], h.Sum(nil))
		if s.traceAll || len(s.trace) < 2*traceKeep {
			s.trace = append(s.trace, line)
		} else {
			copy(s.trace[traceKeep:], s.trace[traceKeep+1:])
			s.trace[len(s.trace)-1] = line
			s.traceDrop++
		}
	}
	s.mu.Unlock()
}

func (s *Sim) LogHash() string {
	s.flushStep()
	s.mu.Lock()
	defer s.mu.Unlock()
	return hex.EncodeToString(s.hash[:8])
}

func (s *Sim) Trace() []string {
	s.flushStep()
	s.mu.Lock()
	defer s.mu.Unlock()
	out := make([]string, 0, len(s.trace)+1)
	for i, l := range s.trace {
		if i == traceKeep && s.traceDrop > 0 {
			out = append(out, fmt.Sprintf("... %d lines dropped ...", s.traceDrop))
		}
		out = append(out, l)
	}
	return out
}

func (s *Sim) Fault(kind string) { s.mu.Lock(); s.Faults[kind]++; s.mu.Unlock() }
func (s *Sim) Probe(kind string) { s.mu.Lock(); s.Probes[kind]++; s.mu.Unlock() }

// Violate records the first oracle failure of the run.
func (s *Sim) Violate(key, detailFmt string, a ...any) {
	s.mu.Lock()
	if s.frozen {
		// the run is over; what free-running goroutines do during shutdown is not judged
		s.mu.Unlock()
		return
	}
	if s.KnownKeys[key] {
		if s.KnownHit == nil {
			s.KnownHit = map[string]int{}
		}
		s.KnownHit[key]++
		s.mu.Unlock()
		return
	}
	if s.violation == nil {
		s.violation = &Violation{Key: key, Detail: fmt.Sprintf(detailFmt, a...)}
	}
	s.mu.Unlock()
}

func (s *Sim) Violation() *Violation {
	s.mu.Lock()
	defer s.mu.Unlock()
	return s.violation
}

func (s *Sim) Failed() bool { return s.Violation() != nil }

// Expired reports that the run has used up its wall-clock budget; harness loops stop and the run
// is counted inconclusive (never a violation).
func (s *Sim) Checkpoint(info RunInfo) {
	if s.checkpoint != nil {
		s.checkpoint(info)
	}
}

// Freeze ends the judged part of a run: later Violate calls (from goroutines that run freely
// while the system is torn down) are ignored. Harnesses that evaluate oracles after their
// bubble (history checks) never call it.
func (s *Sim) Freeze() {
	s.mu.Lock()
	s.frozen = true
	s.mu.Unlock()
}
func (s *Sim) SetCheckpoint(f func(RunInfo)) { s.checkpoint = f }

// Note tells the runner a fact about the run in progress that it needs even if the process dies
// before the run is over (for instance: a node has been restarted).
func (s *Sim) Note(tag string) {
	if s.note != nil {
		s.note(tag)
	}
}
func (s *Sim) SetNote(f func(string)) { s.note = f }

func (s *Sim) Expired() bool { return s.expired.Load() }
func (s *Sim) Expire()       { s.expired.Store(true) }

// Park blocks the calling system goroutine until the scheduler releases it.
// The name is identity:seam:label#k with a per-name counter, so that it does not
// depend on the order in which goroutines happen to arrive.
func (s *Sim) Park(ctx context.Context, seam, label string) {
	s.ParkID(Ident(ctx), seam, label)
}

// KillIdent releases every parked operation whose identity is prefix or starts with prefix+"." and turns later
// parks of such identities into no-ops (a crashed node's goroutines must be able to unwind).
func (s *Sim) KillIdent(prefix string) {
	s.mu.Lock()
	s.dead = append(s.dead, prefix)
	for n, op := range s.pending {
		if strings.HasPrefix(n, prefix+":") || strings.HasPrefix(n, prefix+".") {
			close(op.release)
			delete(s.pending, n)
		}
	}
	s.mu.Unlock()
}

func (s *Sim) ParkID(id, seam, label string) {
	s.mu.Lock()
	if s.stopped {
		s.mu.Unlock()
		return
	}
	for _, d := range s.dead {
		if id == d || strings.HasPrefix(id, d+".") {
			s.mu.Unlock()
			return
		}
	}
	k := id + ":" + seam + ":" + label
	s.counters[k]++
	op := &parkOp{name: fmt.Sprintf("%s#%d", k, s.counters[k]), release: make(chan struct{})}
	s.pending[op.name] = op
	s.mu.Unlock()
	<-op.release
}

// Parked returns the names of the currently parked operations, sorted.
func (s *Sim) Parked() []string {
	s.mu.Lock()
	names := make([]string, 0, len(s.pending))
	for n := range s.pending {
		names = append(names, n)
	}
	s.mu.Unlock()
	sort.Strings(names)
	return names
}

// Release lets one parked operation proceed.
func (s *Sim) Release(name string) {
	s.mu.Lock()
	op := s.pending[name]
	delete(s.pending, name)
	s.mu.Unlock()
	if op != nil {
		close(op.release)
	}
}

// ParkActions returns one Action per parked operation (sorted by name).
// weight(name) may bias the choice; nil = uniform. A weight of 0 hides the park
// from the scheduler for now (used for stalled nodes and held relays).
func (s *Sim) ParkActions(weight func(name string) int) []Action {
	names := s.Parked()
	acts := make([]Action, 0, len(names))
	for _, n := range names {
		w := 1
		if weight != nil {
			w = weight(n)
			if w == 0 {
				continue
			}
		}
		n := n
		acts = append(acts, Action{Name: "rel " + n, Weight: w, Do: func() { s.Release(n) }})
	}
	return acts
}

// Pick chooses one of acts with the seeded PRNG, logs and performs it.
func (s *Sim) Pick(acts []Action) {
	ws := make([]int, len(acts))
	for i, a := range acts {
		ws[i] = a.Weight
		if ws[i] <= 0 {
			ws[i] = 1
		}
	}
	a := acts[s.ChooseW("step", ws)]
	s.Steps++
	s.flushStep()
	// the size and a digest of the enabled set are part of the log: a divergence shows up at the
	// first step whose enabled set differs, not only when the chosen action differs
	var hsum uint32 = 2166136261
	for _, x := range acts {
		for i := 0; i < len(x.Name); i++ {
			hsum = (hsum ^ uint32(x.Name[i])) * 16777619
		}
		hsum = (hsum ^ '|') * 16777619
	}
	s.Logf("[%d] %s (of %d, set %08x)", s.Steps, a.Name, len(acts), hsum)
	if debugActs {
		for _, x := range acts {
			s.Logf("      enabled: %s", x.Name)
		}
	}
	s.flushStep()
	a.Do()
}

// Stop releases every parked goroutine and turns later parks into no-ops (shutdown).
func (s *Sim) Stop() {
	s.flushStep()
	s.mu.Lock()
	s.stopped = true
	for n, op := range s.pending {
		close(op.release)
		delete(s.pending, n)
	}
	s.mu.Unlock()
}

func (s *Sim) Stopped() bool { s.mu.Lock(); defer s.mu.Unlock(); return s.stopped }

// SelectOrder is the seeded select pre-pass order (see vinst): a permutation of the
// cases derived from (seed, site, per-site visit counter). It does not consume the choice
// log: a select is visited far more often than it has several ready cases.
func (s *Sim) SelectOrder(n int, site string) []int { return s.selectOrder("", n, site) }

func (s *Sim) selectOrder(id string, n int, site string) []int {
	site = id + "|" + site
	s.mu.Lock()
	if s.stopped {
		s.mu.Unlock()
		return nil
	}
	for _, d := range s.dead {
		if id == d || strings.HasPrefix(id, d+".") {
			s.mu.Unlock()
			return nil // a dying process: no pre-pass, and no effect on anybody's counters
		}
	}
	s.selCtr[site]++
	c := s.selCtr[site]
	s.mu.Unlock()
	var h uint64 = 1469598103934665603
	for _, b := range []byte(site) {
		h = (h ^ uint64(b)) * 1099511628211
	}
	perm := rand.New(rand.NewPCG(s.Seed^h, c)).Perm(n)
	if debugActs {
		s.Logf("      select order %s visit %d: %v", site, c, perm)
	}
	return perm
}

// Attach installs the simulator behind vsel's hooks. Detach must be called at the end of the run.
func (s *Sim) Attach() {
	s.AttachSelect()
	vsel.YieldFn = func(ctx context.Context, site string) { s.Park(ctx, "y", site) }
}

// AttachSelect installs only the select pre-pass (statement and lock yields pass through).
func (s *Sim) AttachSelect() {
	vsel.OrderFn = s.SelectOrder
	vsel.OrderCtxFn = func(ctx context.Context, n int, site string) []int { return s.selectOrder(Ident(ctx), n, site) }
}

// AttachCases parks a goroutine at the start of every instrumented select case body, after
// handing the received value to observe (may be nil). Only goroutines whose context carries an
// identity are parked.
func (s *Sim) AttachCases(observe func(ctx context.Context, site string, v any)) {
	vsel.CaseFn = func(ctx context.Context, site string, v any) {
		if Ident(ctx) == "" {
			return
		}
		if observe != nil && v != nil {
			observe(ctx, site, v)
		}
		s.Park(ctx, "case", site)
	}
}

func Detach() {
	vsel.OrderFn = nil
	vsel.OrderCtxFn = nil
	vsel.YieldFn = nil
	vsel.CaseFn = nil
}

// Bubble runs body as the root goroutine of a synctest bubble. Leftover goroutines that are
// durably blocked at the end make synctest panic; that panic is recovered and reported.
func (s *Sim) Bubble(body func()) (leaked bool) {
	defer func() {
		if r := recover(); r != nil {
			msg := fmt.Sprint(r)
			if strings.Contains(msg, "deadlock") || strings.Contains(msg, "blocked goroutines") {
				leaked = true
				return
			}
			panic(r)
		}
	}()
	synctest.Test(s.T, func(t *testing.T) {
		s.start = time.Now()
		body()
	})
	return false
}

// SimTime is the fake time elapsed since the bubble started (call inside the bubble).
func (s *Sim) SimTime() time.Duration { return time.Since(s.start) }

// Wait is synctest.Wait (quiescence of every goroutine of the bubble).
func Wait() { synctest.Wait() }
