package vsimcore

import (
	"bufio"
	"encoding/json"
	"fmt"
	"os"
	"strconv"
	"testing"
	"time"
)

// Params are per-check parameters handed down from /verif/harness.json via the runner.
type Params map[string]any

func (p Params) Int(k string, def int) int {
	if v, ok := p[k]; ok {
		switch x := v.(type) {
		case float64:
			return int(x)
		case int:
			return x
		case string:
			if n, err := strconv.Atoi(x); err == nil {
				return n
			}
		}
	}
	return def
}

func (p Params) Str(k, def string) string {
	if v, ok := p[k].(string); ok {
		return v
	}
	return def
}

func (p Params) Bool(k string, def bool) bool {
	if v, ok := p[k].(bool); ok {
		return v
	}
	return def
}

// RunInfo is what a harness reports about one run besides violations.
type RunInfo struct {
	Nontrivial   bool           `json:"nontrivial"`
	Inconclusive bool           `json:"inconclusive,omitempty"`
	Sig          string         `json:"sig,omitempty"`    // abstract-state signature(s) reached, for distinctness
	States       []string       `json:"states,omitempty"` // distinct abstract states visited in this run
	Sample       any            `json:"sample,omitempty"`
	SimNs        int64          `json:"sim_ns,omitempty"`
	Extra        map[string]int `json:"extra,omitempty"`
}

type Harness func(s *Sim, p Params) RunInfo

// Result is one line of worker output.
type Result struct {
	Seed     uint64         `json:"seed"`
	Outcome  string         `json:"outcome"` // ok | violation | inconclusive
	Key      string         `json:"key,omitempty"`
	Detail   string         `json:"detail,omitempty"`
	Steps    int            `json:"steps"`
	NChoices int            `json:"nchoices"`
	LogHash  string         `json:"log_hash"`
	WallUs   int64          `json:"wall_us"`
	Faults   map[string]int `json:"faults,omitempty"`
	Probes   map[string]int `json:"probes,omitempty"`
	Info     RunInfo        `json:"info"`
	Choices  []int          `json:"choices,omitempty"`
	Trace    []string       `json:"trace,omitempty"`
	Known    map[string]int `json:"known,omitempty"`
}

// ReplayFile is the on-disk format of a replay (also written by the runner).
type ReplayFile struct {
	Property string `json:"property"`
	Harness  string `json:"harness"`
	Seed     uint64 `json:"seed"`
	Params   Params `json:"params"`
	Choices  []int  `json:"choices"`
	Key      string `json:"key,omitempty"`
	Detail   string `json:"detail,omitempty"`
	LogHash  string `json:"log_hash,omitempty"`
	Note     string `json:"note,omitempty"`
}

func envInt(k string, def int64) int64 {
	if v := os.Getenv(k); v != "" {
		if n, err := strconv.ParseInt(v, 10, 64); err == nil {
			return n
		}
	}
	return def
}

// WorkerMain is called from the single Test function of a harness test binary.
// The runner drives it through environment variables; see /verif/cmd/vrun.
func WorkerMain(t *testing.T, harnesses map[string]Harness) {
	name := os.Getenv("VSIM_HARNESS")
	if name == "" {
		t.Skip("not run by the verif runner (VSIM_HARNESS unset)")
	}
	h, ok := harnesses[name]
	if !ok {
		fmt.Printf("VSIM E unknown harness %q\n", name)
		os.Exit(3)
	}
	params := Params{}
	if pj := os.Getenv("VSIM_PARAMS"); pj != "" {
		if err := json.Unmarshal([]byte(pj), &params); err != nil {
			fmt.Printf("VSIM E bad params: %v\n", err)
			os.Exit(3)
		}
	}
	out := bufio.NewWriter(os.Stdout)
	defer out.Flush()
	emit := func(tag string, v any) {
		b, _ := json.Marshal(v)
		fmt.Fprintf(out, "VSIM %s %s\n", tag, b)
		out.Flush()
	}
	traceAll := os.Getenv("VSIM_TRACE") != ""
	wantChoices := os.Getenv("VSIM_WANT_CHOICES") != ""

	var sink func(int)
	if p := os.Getenv("VSIM_CHOICELOG"); p != "" {
		f, err := os.Create(p)
		if err != nil {
			fmt.Printf("VSIM E %v\n", err)
			os.Exit(3)
		}
		defer f.Close()
		sink = func(v int) { fmt.Fprintf(f, "%d\n", v) } // unbuffered on purpose: survives a crash
	}

	runOne := func(seed uint64, replay []int, replaying bool, p Params) Result {
		fmt.Fprintf(out, "VSIM B %d\n", seed)
		out.Flush()
		s := NewSim(t, seed, replay, replaying)
		s.SetTraceAll(traceAll)
		s.SetChoiceSink(sink)
		if kk, ok := p["known_keys"].([]any); ok {
			s.KnownKeys = map[string]bool{}
			for _, k := range kk {
				if ks, ok := k.(string); ok {
					s.KnownKeys[ks] = true
				}
			}
		}
		t0 := time.Now()
		soft := time.Duration(p.Int("run_wall_s", 30)) * time.Second
		softT := time.AfterFunc(soft, s.Expire)
		hardT := time.AfterFunc(4*soft+30*time.Second, func() {
			fmt.Fprintf(os.Stdout, "\nVSIM X %d hard wall-clock limit exceeded\n", seed)
			os.Exit(4)
		})
		build := func(info RunInfo) Result {
			if s.Expired() {
				info.Inconclusive = true
			}
			r := Result{
				Seed: seed, Outcome: "ok", Steps: s.Steps, NChoices: len(s.Choices), LogHash: s.LogHash(),
				WallUs: time.Since(t0).Microseconds(), Faults: s.Faults, Probes: s.Probes, Info: info,
			}
			r.Known = s.KnownHit
			if v := s.Violation(); v != nil {
				r.Outcome = "violation"
				r.Key, r.Detail = v.Key, v.Detail
				r.Choices = append([]int(nil), s.Choices...)
				r.Trace = s.Trace()
			} else if info.Inconclusive {
				r.Outcome = "inconclusive"
			}
			if wantChoices && r.Choices == nil {
				r.Choices = append([]int(nil), s.Choices...)
			}
			if traceAll {
				r.Trace = s.Trace()
			}
			return r
		}
		s.SetNote(func(tag string) {
			fmt.Fprintf(out, "VSIM N %s\n", tag)
			out.Flush()
		})
		s.SetCheckpoint(func(info RunInfo) {
			// WallUs is computed with the real clock only outside a bubble; inside it is fake, harmless
			emit("P", build(info))
		})
		info := h(s, p)
		softT.Stop()
		hardT.Stop()
		r := build(info)
		return r
	}

	switch os.Getenv("VSIM_MODE") {
	case "replay":
		b, err := os.ReadFile(os.Getenv("VSIM_REPLAY"))
		if err != nil {
			fmt.Printf("VSIM E %v\n", err)
			os.Exit(3)
		}
		var rf ReplayFile
		if err := json.Unmarshal(b, &rf); err != nil {
			fmt.Printf("VSIM E %v\n", err)
			os.Exit(3)
		}
		p := rf.Params
		if p == nil {
			p = params
		}
		emit("R", runOne(rf.Seed, rf.Choices, true, p))
	default:
		base := uint64(envInt("VSIM_SEED_BASE", 1))
		start := envInt("VSIM_START", 0)
		stride := envInt("VSIM_STRIDE", 1)
		count := envInt("VSIM_COUNT", 1)
		deadline := time.Now().Add(time.Duration(envInt("VSIM_DEADLINE_S", 3600)) * time.Second)
		for i := start; i < count; i += stride {
			if time.Now().After(deadline) {
				break
			}
			seed := base*1000003 + uint64(i)
			r := runOne(seed, nil, false, params)
			if i >= 3 {
				r.Info.Sample = nil // samples only from the first few runs
			}
			emit("R", r)
		}
	}
	emit("D", map[string]any{"done": true})
}
