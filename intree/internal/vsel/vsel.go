// Package vsel is the run-time side of vinst's source instrumentation
// (copied into a scratch copy of the repository by /verif/check; never part of /repo).
package vsel

import "context"

// OrderFn, when set, returns the order in which an instrumented select polls its cases
// before falling back to the original blocking select. nil result = no pre-pass.
var OrderFn func(n int, site string) []int

func Order(n int, site string) []int {
	if f := OrderFn; f != nil {
		return f(n, site)
	}
	return nil
}

// OrderCtxFn is Order with the caller's context (identity-scoped visit counters).
var OrderCtxFn func(ctx context.Context, n int, site string) []int

func OrderCtx(ctx context.Context, n int, site string) []int {
	if f := OrderCtxFn; f != nil {
		return f(ctx, n, site)
	}
	return Order(n, site)
}

// YieldFn, when set, is called at instrumented statement boundaries and lock sites.
var YieldFn func(ctx context.Context, site string)

func Yield(ctx context.Context, site string) {
	if f := YieldFn; f != nil {
		f(ctx, site)
	}
}

// CaseFn, when set, is called at the start of instrumented select case bodies with the value
// that was received (nil for send cases and receives without a variable).
var CaseFn func(ctx context.Context, site string, v any)

func Case(ctx context.Context, site string, v any) {
	if f := CaseFn; f != nil {
		f(ctx, site, v)
	}
}

// TryLocker is what sync.Mutex and sync.RWMutex offer.
type TryLocker interface {
	TryLock() bool
	Lock()
}

type TryRLocker interface {
	TryRLock() bool
	RLock()
}

// Lock acquires mu without ever blocking on it while a simulator is attached:
// the caller yields to the scheduler until TryLock succeeds.
func Lock(ctx context.Context, mu TryLocker, site string) {
	if YieldFn == nil {
		mu.Lock()
		return
	}
	Yield(ctx, site+":lock")
	for !mu.TryLock() {
		Yield(ctx, site+":lockwait")
	}
}

func RLock(ctx context.Context, mu TryRLocker, site string) {
	if YieldFn == nil {
		mu.RLock()
		return
	}
	Yield(ctx, site+":rlock")
	for !mu.TryRLock() {
		Yield(ctx, site+":rlockwait")
	}
}
