//go:build verif

// Package vsimleaf holds the simulation harnesses for leaf components
// (tx buffer, memstores, signature proofs, codec, hash/sign schemes, gossip strategy, daisy chain).
// Copied into a scratch copy of the repository by /verif/check; never part of /repo.
package vsimleaf

import (
	"fmt"
	"io"
	"log/slog"
	"runtime/debug"
	"strings"
	"sync"
	"time"

	"github.com/anishathalye/porcupine"
	"github.com/gordian-engine/gordian/internal/vsimcore"
)

var Harnesses = map[string]vsimcore.Harness{}

func quietLog() *slog.Logger {
	return slog.New(slog.NewTextHandler(io.Discard, &slog.HandlerOptions{Level: slog.LevelError + 8}))
}

// hist records an invoke/return history stamped with a global event sequence number.
type hist struct {
	mu  sync.Mutex
	seq int64
	ops []porcupine.Operation
}

func (h *hist) invoke() int64 {
	h.mu.Lock()
	defer h.mu.Unlock()
	h.seq++
	return h.seq
}

func (h *hist) ret(client int, call int64, in, out any) {
	h.mu.Lock()
	defer h.mu.Unlock()
	h.seq++
	h.ops = append(h.ops, porcupine.Operation{ClientId: client, Input: in, Call: call, Output: out, Return: h.seq})
}

// checkLinearizable runs porcupine outside the bubble. Unknown (timeout) is inconclusive, never reported.
func checkLinearizable(s *vsimcore.Sim, keyPrefix string, model porcupine.Model, ops []porcupine.Operation, describe func(porcupine.Operation) string) (inconclusive bool) {
	res := porcupine.CheckOperationsTimeout(model, ops, 20*time.Second)
	switch res {
	case porcupine.Ok:
		return false
	case porcupine.Unknown:
		return true
	}
	var b strings.Builder
	for _, op := range ops {
		fmt.Fprintf(&b, "[%d,%d] c%d %s\n", op.Call, op.Return, op.ClientId, describe(op))
	}
	s.Violate(keyPrefix+"/not-linearizable", "history has no linearization against the sequential model:\n%s", b.String())
	return false
}

// guard runs f and converts a panic into a violation of the given key (for code that runs on the
// scheduler's own goroutine; panics in system goroutines kill the worker and are seen by the runner).
func guard(s *vsimcore.Sim, key string, what func() string, f func()) (ok bool) {
	ok = true
	defer func() {
		if r := recover(); r != nil {
			ok = false
			st := string(debug.Stack())
			fn := ""
			for _, l := range strings.Split(st, "\n") {
				if strings.HasPrefix(l, "github.com/gordian-engine/gordian/") && !strings.Contains(l, "vsim") {
					fn = l
					if p := strings.LastIndex(fn, "("); p > 0 {
						fn = fn[:p]
					}
					fn = strings.TrimPrefix(fn, "github.com/gordian-engine/gordian/")
					break
				}
			}
			s.Violate(key+"/panic/"+fn, "panic: %v\ninput: %s", r, what())
		}
	}()
	f()
	return ok
}
