//go:build verif

package vsimleaf

import (
	"context"
	"crypto/ed25519"
	"crypto/sha256"
	"encoding/binary"
	"fmt"
	"sort"
	"strings"

	"github.com/bits-and-blooms/bitset"
	"github.com/gordian-engine/gordian/gcrypto"
	"github.com/gordian-engine/gordian/gcrypto/gblsminsig"
	"github.com/gordian-engine/gordian/internal/vsimcore"
)

// H-PROOF: signature proofs as grow-only replicated sets. 3-5 replica proofs for one message,
// simulated gossip of full proofs (Merge), sparse proofs (MergeSparse), clones and
// self-round-trips in seed-chosen order with duplication and in-flight corruption of key ids and
// signature bytes; then finalization / validation of commit proofs (clean and corrupted).

func init() { Harnesses["proof"] = runProof }

type pfKeys struct {
	scheme gcrypto.CommonMessageSignatureProofScheme
	pubs   []gcrypto.PubKey
	sign   func(i int, msg []byte) []byte
	verify func(i int, msg, sig []byte) bool // independent of the proof code (ed25519 only)
	bls    bool
}

var blsSignerCache = map[int]gblsminsig.Signer{}

func pfMakeKeys(bls bool, n int) pfKeys {
	k := pfKeys{bls: bls}
	if bls {
		k.scheme = gblsminsig.SignatureProofScheme{}
		signers := make([]gblsminsig.Signer, n)
		for i := range signers {
			sg, ok := blsSignerCache[i]
			if !ok {
				ikm := sha256.Sum256([]byte(fmt.Sprintf("vsim-bls-key-%d", i)))
				var err error
				sg, err = gblsminsig.NewSigner(ikm[:])
				if err != nil {
					panic(err)
				}
				blsSignerCache[i] = sg
			}
			signers[i] = sg
			k.pubs = append(k.pubs, sg.PubKey())
		}
		k.sign = func(i int, msg []byte) []byte {
			b, err := signers[i].Sign(context.Background(), msg)
			if err != nil {
				panic(err)
			}
			return b
		}
		k.verify = func(i int, msg, sig []byte) bool { return k.pubs[i].Verify(msg, sig) }
		return k
	}
	k.scheme = gcrypto.SimpleCommonMessageSignatureProofScheme{}
	privs := make([]ed25519.PrivateKey, n)
	for i := range privs {
		seed := sha256.Sum256([]byte(fmt.Sprintf("vsim-ed-key-%d", i)))
		privs[i] = ed25519.NewKeyFromSeed(seed[:])
		k.pubs = append(k.pubs, gcrypto.Ed25519PubKey(privs[i].Public().(ed25519.PublicKey)))
	}
	k.sign = func(i int, msg []byte) []byte { return ed25519.Sign(privs[i], msg) }
	k.verify = func(i int, msg, sig []byte) bool {
		return ed25519.Verify(privs[i].Public().(ed25519.PublicKey), msg, sig)
	}
	return k
}

type intset map[int]bool

func (s intset) clone() intset {
	n := intset{}
	for k := range s {
		n[k] = true
	}
	return n
}
func (s intset) list() []int {
	var l []int
	for k := range s {
		l = append(l, k)
	}
	sort.Ints(l)
	return l
}
func (s intset) eq(o intset) bool {
	if len(s) != len(o) {
		return false
	}
	for k := range s {
		if !o[k] {
			return false
		}
	}
	return true
}
func (s intset) subsetOf(o intset) bool {
	for k := range s {
		if !o[k] {
			return false
		}
	}
	return true
}

func bitsOf(p gcrypto.CommonMessageSignatureProof, n int) intset {
	var bs bitset.BitSet
	p.SignatureBitSet(&bs)
	out := intset{}
	for u, ok := bs.NextSet(0); ok; u, ok = bs.NextSet(u + 1) {
		out[int(u)] = true
	}
	return out
}

func runProof(s *vsimcore.Sim, p vsimcore.Params) vsimcore.RunInfo {
	bls := p.Str("scheme", "simple") == "bls"
	key := "C13/simple"
	if bls {
		key = "C13/bls"
	}
	var sizes []int
	if bls {
		sizes = []int{1, 2, 3, 4, 5, 6, 7, 9}
	} else {
		sizes = []int{1, 2, 3, 4, 5, 7, 8, 9, 16, 17, 33}
	}
	n := sizes[s.Choose("nkeys", len(sizes))]
	K := pfMakeKeys(bls, n)
	msg := []byte(fmt.Sprintf("vsim message %d", s.Seed%97))
	const pkh = "pubkeyhash"
	nRep := 3 + s.Choose("replicas", 3)
	reps := make([]gcrypto.CommonMessageSignatureProof, nRep)
	truth := make([]intset, nRep)
	sigs := make([][]byte, n)
	for i := range sigs {
		sigs[i] = K.sign(i, msg)
	}
	var info vsimcore.RunInfo
	var trace []string
	logf := func(f string, a ...any) {
		l := fmt.Sprintf(f, a...)
		s.Logf("%s", l)
		if len(trace) < 40 {
			trace = append(trace, l)
		}
	}
	what := func() string { return strings.Join(trace, " ; ") }

	ok := true
	guard(s, key+"/new", what, func() {
		for r := range reps {
			var err error
			reps[r], err = K.scheme.New(msg, K.pubs, pkh)
			if err != nil {
				s.Violate(key+"/new-error", "New returned %v", err)
				ok = false
			}
			truth[r] = intset{}
		}
	})
	if !ok || s.Failed() {
		return info
	}

	checkAll := func(after string) {
		for r := range reps {
			got := bitsOf(reps[r], n)
			if !got.eq(truth[r]) {
				s.Violate(key+"/signer-set-mismatch/"+strings.Fields(after)[0], "after %q replica %d holds signers %v, expected %v (n=%d)\ntrace: %s", after, r, got.list(), truth[r].list(), n, what())
				return
			}
		}
	}

	corruptions := 0
	steps := 6 + s.Choose("steps", 20)
	for st := 0; st < steps && !s.Failed(); st++ {
		act := s.ChooseW("act", []int{5, 3, 6, 2, 2, 1, 1})
		dst := s.Choose("dst", nRep)
		switch act {
		case 0: // a signer signs at a replica (maybe with a bad signature / foreign key)
			i := s.Choose("signer", n)
			mode := s.ChooseW("signmode", []int{8, 1, 1})
			guard(s, key+"/AddSignature", what, func() {
				switch mode {
				case 0:
					logf("add r%d signer %d", dst, i)
					if err := reps[dst].AddSignature(sigs[i], K.pubs[i]); err != nil {
						s.Violate(key+"/add-valid-rejected", "AddSignature of a valid signature returned %v", err)
					}
					truth[dst][i] = true
				case 1:
					bad := append([]byte(nil), sigs[i]...)
					bad[s.Choose("flipbyte", len(bad))] ^= 1 << uint(s.Choose("flipbit", 8))
					logf("add r%d signer %d with flipped signature", dst, i)
					corruptions++
					if K.verify(i, msg, bad) {
						return // (cannot happen for ed25519/BLS; keep the oracle honest)
					}
					if err := reps[dst].AddSignature(bad, K.pubs[i]); err == nil {
						s.Violate(key+"/add-invalid-accepted", "AddSignature accepted a signature that does not verify (signer %d)", i)
					}
				case 2:
					j := (i + 1) % n
					if j == i {
						return
					}
					logf("add r%d signer %d's signature under key %d", dst, i, j)
					corruptions++
					if err := reps[dst].AddSignature(sigs[i], K.pubs[j]); err == nil && !truth[dst][j] {
						s.Violate(key+"/add-wrongkey-accepted", "AddSignature accepted signer %d's signature under key %d", i, j)
					} else if err == nil && bls {
						// BLS AddSignature compares against the signature it already has for that key
						s.Violate(key+"/add-wrongkey-accepted", "AddSignature accepted signer %d's signature under key %d", i, j)
					}
				}
			})
			checkAll("add")
		case 1: // full merge from another replica
			src := s.Choose("src", nRep)
			if src == dst {
				continue
			}
			logf("merge r%d <- r%d", dst, src)
			prior := truth[dst].clone()
			var res gcrypto.SignatureProofMergeResult
			guard(s, key+"/Merge", what, func() { res = reps[dst].Merge(reps[src].Clone()) })
			for k := range truth[src] {
				truth[dst][k] = true
			}
			checkAll("merge")
			pfFlags(s, key+"/merge", res, prior, truth[src], truth[src], true, what)
			if !bitsOf(reps[src], n).eq(truth[src]) {
				s.Violate(key+"/merge-modified-source", "Merge modified its argument")
			}
		case 2: // sparse gossip, possibly corrupted in flight
			src := s.Choose("src", nRep)
			var sp gcrypto.SparseSignatureProof
			guard(s, key+"/AsSparse", what, func() { sp = reps[src].AsSparse() })
			// deep copy (the wire)
			cp := gcrypto.SparseSignatureProof{PubKeyHash: sp.PubKeyHash}
			for _, ss := range sp.Signatures {
				cp.Signatures = append(cp.Signatures, gcrypto.SparseSignature{KeyID: append([]byte(nil), ss.KeyID...), Sig: append([]byte(nil), ss.Sig...)})
			}
			fault := s.ChooseW("sparsefault", []int{10, 2, 2, 2, 1, 1, 1})
			desc := "clean"
			exact := true // expected set known exactly
			validOffered := truth[src].clone()
			allValid := true
			if len(cp.Signatures) == 0 && fault >= 1 && fault <= 4 {
				fault = 0
			}
			switch fault {
			case 1: // flip a signature bit of one entry
				e := s.Choose("entry", len(cp.Signatures))
				cp.Signatures[e].Sig[s.Choose("flipbyte", len(cp.Signatures[e].Sig))] ^= 1 << uint(s.Choose("flipbit", 8))
				desc = fmt.Sprintf("sig of entry %d flipped", e)
				allValid = false
				if !bls {
					delete(validOffered, int(binary.BigEndian.Uint16(cp.Signatures[e].KeyID)))
				} else {
					exact = false
				}
			case 2: // key id out of range
				e := s.Choose("entry", len(cp.Signatures))
				binary.BigEndian.PutUint16(cp.Signatures[e].KeyID, uint16(1000+s.Choose("oor", 60000)))
				desc = fmt.Sprintf("key id of entry %d out of range", e)
				allValid = false
				if !bls {
					validOffered = intset{}
					for _, ss := range cp.Signatures {
						if id := int(binary.BigEndian.Uint16(ss.KeyID)); id < n {
							validOffered[id] = true
						}
					}
				} else {
					exact = false
				}
			case 3: // key id of wrong length (0, 1, 3 bytes)
				e := s.Choose("entry", len(cp.Signatures))
				l := []int{0, 1, 3}[s.Choose("len", 3)]
				orig := cp.Signatures[e].KeyID
				nk := make([]byte, l)
				copy(nk, orig)
				cp.Signatures[e].KeyID = nk
				desc = fmt.Sprintf("key id of entry %d has length %d", e, l)
				allValid = false
				if !bls {
					delete(validOffered, int(binary.BigEndian.Uint16(orig)))
				} else {
					exact = false
				}
			case 4: // key ids of two entries swapped
				if len(cp.Signatures) >= 2 {
					a := s.Choose("entry", len(cp.Signatures))
					b := (a + 1 + s.Choose("entry2", len(cp.Signatures)-1)) % len(cp.Signatures)
					ida, idb := int(binary.BigEndian.Uint16(cp.Signatures[a].KeyID)), int(binary.BigEndian.Uint16(cp.Signatures[b].KeyID))
					cp.Signatures[a].KeyID, cp.Signatures[b].KeyID = cp.Signatures[b].KeyID, cp.Signatures[a].KeyID
					desc = fmt.Sprintf("key ids of entries %d and %d swapped", a, b)
					allValid = false
					if !bls {
						delete(validOffered, ida)
						delete(validOffered, idb)
					} else {
						exact = false
					}
				}
			case 5: // wrong public key hash: must be ignored altogether
				cp.PubKeyHash = "otherhash"
				desc = "wrong pubkey hash"
				allValid = false
				validOffered = intset{}
			case 6: // duplicate delivery of every entry
				cp.Signatures = append(cp.Signatures, cp.Signatures...)
				desc = "entries duplicated"
			}
			if fault != 0 {
				corruptions++
				s.Fault("sparse:" + strings.Fields(desc)[0])
			}
			logf("mergesparse r%d <- r%d (%s)", dst, src, desc)
			prior := truth[dst].clone()
			var res gcrypto.SignatureProofMergeResult
			guard(s, key+"/MergeSparse", func() string { return fmt.Sprintf("%s | sparse=%+v", what(), cp) }, func() { res = reps[dst].MergeSparse(cp) })
			if s.Failed() {
				break
			}
			if exact {
				for k := range validOffered {
					truth[dst][k] = true
				}
				checkAll("mergesparse " + desc)
				if fault == 5 {
					if res.AllValidSignatures || res.IncreasedSignatures {
						s.Violate(key+"/mergesparse-flags/wrong-hash", "sparse proof for another key set reported %+v", res)
					}
				} else {
					pfFlags(s, key+"/mergesparse", res, prior, validOffered, truth[src], allValid, what)
				}
			} else {
				got := bitsOf(reps[dst], n)
				upper := prior.clone()
				for k := range truth[src] {
					upper[k] = true
				}
				if !prior.subsetOf(got) || !got.subsetOf(upper) {
					s.Violate(key+"/signer-set-mismatch/mergesparse-corrupted", "after corrupted sparse merge (%s) replica %d holds %v; prior %v, honest source %v", desc, dst, got.list(), prior.list(), truth[src].list())
				}
				if res.AllValidSignatures {
					s.Violate(key+"/mergesparse-flags/corrupted-reported-valid", "corrupted sparse proof (%s) reported AllValidSignatures", desc)
				}
				if res.IncreasedSignatures != (len(got) > len(prior)) {
					s.Violate(key+"/mergesparse-flags/increased", "IncreasedSignatures=%t but set went %v -> %v", res.IncreasedSignatures, prior.list(), got.list())
				}
				truth[dst] = got
			}
		case 3: // clone independence
			guard(s, key+"/Clone", what, func() {
				c := reps[dst].Clone()
				var free []int
				for i := 0; i < n; i++ {
					if !truth[dst][i] {
						free = append(free, i)
					}
				}
				if len(free) == 0 {
					return
				}
				i := free[s.Choose("free", len(free))]
				logf("clone r%d, mutate %s with signer %d", dst, []string{"clone", "origin"}[st%2], i)
				if st%2 == 0 {
					c.AddSignature(sigs[i], K.pubs[i])
					if !bitsOf(reps[dst], n).eq(truth[dst]) {
						s.Violate(key+"/clone-aliases-origin", "adding signer %d to a clone changed the origin", i)
					}
				} else {
					reps[dst].AddSignature(sigs[i], K.pubs[i])
					if !bitsOf(c, n).eq(truth[dst]) {
						s.Violate(key+"/clone-aliases-origin", "adding signer %d to the origin changed an earlier clone", i)
					}
					truth[dst][i] = true
				}
			})
			checkAll("clone")
		case 4: // round trip through the sparse form
			logf("roundtrip r%d", dst)
			guard(s, key+"/roundtrip", what, func() {
				sp := reps[dst].AsSparse()
				fresh, err := K.scheme.New(msg, K.pubs, pkh)
				if err != nil {
					panic(err)
				}
				res := fresh.MergeSparse(sp)
				if got := bitsOf(fresh, n); !got.eq(truth[dst]) {
					s.Violate(key+"/roundtrip-differs", "proof rebuilt from its own sparse form has signers %v, origin %v", got.list(), truth[dst].list())
				}
				if !res.AllValidSignatures {
					s.Violate(key+"/roundtrip-invalid", "own sparse form reported invalid signatures")
				}
				sp2 := reps[dst].AsSparse()
				if fmt.Sprint(sp) != fmt.Sprint(sp2) {
					s.Violate(key+"/assparse-unstable", "AsSparse differs between two calls")
				}
			})
		case 5: // Derive
			guard(s, key+"/Derive", what, func() {
				d := reps[dst].Derive()
				if len(bitsOf(d, n)) != 0 || !d.Matches(reps[dst]) {
					s.Violate(key+"/derive", "derived proof not empty or not matching")
				}
			})
		case 6: // HasSparseKeyID on unaggregated ids
			guard(s, key+"/HasSparseKeyID", what, func() {
				for _, id := range []int{0, n - 1, n, 65535} {
					b := [2]byte{}
					binary.BigEndian.PutUint16(b[:], uint16(id))
					has, valid := reps[dst].HasSparseKeyID(b[:])
					if id < n && !bls {
						if !valid || has != truth[dst][id] {
							s.Violate(key+"/hassparsekeyid", "id %d: has=%t valid=%t, truth %t", id, has, valid, truth[dst][id])
						}
					}
					if id >= n && !bls && (valid || has) {
						s.Violate(key+"/hassparsekeyid", "out-of-range id %d reported has=%t valid=%t", id, has, valid)
					}
				}
				for _, l := range []int{0, 1, 3} {
					if has, valid := reps[dst].HasSparseKeyID(make([]byte, l)); has || valid {
						s.Violate(key+"/hassparsekeyid", "key id of length %d reported has=%t valid=%t", l, has, valid)
					}
				}
			})
		}
	}

	// convergence: once faults stop and everybody re-broadcasts, all replicas hold the union
	if !s.Failed() {
		union := intset{}
		for _, t := range truth {
			for k := range t {
				union[k] = true
			}
		}
		guard(s, key+"/MergeSparse", what, func() {
			for a := range reps {
				for b := range reps {
					if a != b {
						reps[a].MergeSparse(reps[b].AsSparse())
					}
				}
			}
			for a := range reps {
				for b := range reps {
					if a != b {
						reps[a].MergeSparse(reps[b].AsSparse())
					}
				}
			}
		})
		for r := range reps {
			if got := bitsOf(reps[r], n); !got.eq(union) && !s.Failed() {
				s.Violate(key+"/no-convergence", "after full re-broadcast replica %d holds %v, union of honest signers is %v", r, got.list(), union.list())
			}
		}
		info.States = append(info.States, fmt.Sprintf("n%d/r%d/u%d/c%d", n, nRep, min(len(union), 6), min(corruptions, 3)))
	}

	// finalization
	if !s.Failed() {
		pfFinalize(s, key, K, n, what, logf)
	}
	info.Nontrivial = len(trace) >= 6
	info.Sample = map[string]any{"harness": "proof", "scheme": p.Str("scheme", "simple"), "keys": n, "replicas": nRep, "actions": trace}
	return info
}

// pfFlags checks the merge flags against what happened.
func pfFlags(s *vsimcore.Sim, key string, res gcrypto.SignatureProofMergeResult, prior, validOffered, offeredAll intset, allValid bool, what func() string) {
	grew := !validOffered.subsetOf(prior)
	if res.IncreasedSignatures != grew {
		s.Violate(key+"-flags/increased", "IncreasedSignatures=%t but prior %v, valid offered %v\ntrace: %s", res.IncreasedSignatures, prior.list(), validOffered.list(), what())
	}
	if res.AllValidSignatures != allValid {
		s.Violate(key+"-flags/allvalid", "AllValidSignatures=%t but offered-all-valid is %t\ntrace: %s", res.AllValidSignatures, allValid, what())
	}
	if allValid && !(len(prior) == 0 && len(validOffered) == 0) {
		strict := prior.subsetOf(validOffered) && len(validOffered) > len(prior)
		if res.WasStrictSuperset != strict {
			s.Violate(key+"-flags/strictsuperset", "WasStrictSuperset=%t but prior %v, offered %v\ntrace: %s", res.WasStrictSuperset, prior.list(), validOffered.list(), what())
		}
	}
}

func pfFinalize(s *vsimcore.Sim, key string, K pfKeys, n int, what func() string, logf func(string, ...any)) {
	const pkh = "pubkeyhash"
	nBlocks := 1 + s.Choose("finblocks", 4)
	allowDouble := s.Pct("double-signers", 30)
	sets := make([]intset, nBlocks)
	for b := range sets {
		sets[b] = intset{}
	}
	for i := 0; i < n; i++ {
		switch s.ChooseW("votes", []int{1, 6, 1}) {
		case 0: // absent
		case 1:
			sets[s.ChooseW("block", blockWeights(nBlocks))][i] = true
		case 2:
			if allowDouble && nBlocks > 1 {
				a := s.Choose("blockA", nBlocks)
				b := (a + 1 + s.Choose("blockB", nBlocks-1)) % nBlocks
				sets[a][i], sets[b][i] = true, true
			} else {
				sets[0][i] = true
			}
		}
	}
	if len(sets[0]) == 0 {
		sets[0][s.Choose("mainsigner", n)] = true
	}
	double := false
	seen := intset{}
	for _, st := range sets {
		for k := range st {
			if seen[k] {
				double = true
			}
			seen[k] = true
		}
	}
	msgs := make([][]byte, nBlocks)
	hashes := map[string]string{}
	proofs := make([]gcrypto.CommonMessageSignatureProof, 0, nBlocks)
	var desc []string
	for b := range sets {
		msgs[b] = []byte(fmt.Sprintf("precommit for block %d seed %d", b, s.Seed%89))
		hashes[string(msgs[b])] = fmt.Sprintf("hash%d", b)
		desc = append(desc, fmt.Sprintf("block%d=%v", b, sets[b].list()))
	}
	logf("finalize %s double=%t", strings.Join(desc, " "), double)
	var fin gcrypto.FinalizedCommonMessageSignatureProof
	if !guard(s, key+"/Finalize", what, func() {
		for b := range sets {
			if b > 0 && len(sets[b]) == 0 {
				continue
			}
			pr, err := K.scheme.New(msgs[b], K.pubs, pkh)
			if err != nil {
				panic(err)
			}
			for i := range sets[b] {
				if err := pr.AddSignature(K.sign(i, msgs[b]), K.pubs[i]); err != nil {
					panic(err)
				}
			}
			proofs = append(proofs, pr)
		}
		fin = K.scheme.Finalize(proofs[0], proofs[1:])
	}) || s.Failed() {
		return
	}
	var got map[string]*bitset.BitSet
	var unique bool
	guard(s, key+"/ValidateFinalizedProof", what, func() { got, unique = K.scheme.ValidateFinalizedProof(fin, hashes) })
	if s.Failed() {
		return
	}
	if got == nil {
		s.Violate(key+"/finalized-clean-rejected", "a freshly finalized proof did not validate (%s)", strings.Join(desc, " "))
		return
	}
	for b := range sets {
		if b > 0 && len(sets[b]) == 0 {
			continue
		}
		bs := got[fmt.Sprintf("hash%d", b)]
		gs := intset{}
		if bs != nil {
			for u, ok := bs.NextSet(0); ok; u, ok = bs.NextSet(u + 1) {
				gs[int(u)] = true
			}
		}
		if !gs.eq(sets[b]) {
			s.Violate(key+"/finalized-roundtrip-differs", "block %d validates back to signers %v, was built from %v (%s)", b, gs.list(), sets[b].list(), strings.Join(desc, " "))
			return
		}
	}
	if unique == double {
		s.Violate(key+"/finalized-double-sign-flag", "allSignaturesUnique=%t but double signers present=%t (%s)", unique, double, strings.Join(desc, " "))
	}
	if double {
		s.Probe("finalize_with_double_signer")
	}
	// corrupted finalized input must never panic
	for c := 0; c < 6 && !s.Failed(); c++ {
		f2 := gcrypto.FinalizedCommonMessageSignatureProof{Keys: fin.Keys, PubKeyHash: fin.PubKeyHash, MainMessage: fin.MainMessage}
		for _, ss := range fin.MainSignatures {
			f2.MainSignatures = append(f2.MainSignatures, gcrypto.SparseSignature{KeyID: append([]byte(nil), ss.KeyID...), Sig: append([]byte(nil), ss.Sig...)})
		}
		if fin.Rest != nil {
			f2.Rest = map[string][]gcrypto.SparseSignature{}
			for m, l := range fin.Rest {
				for _, ss := range l {
					f2.Rest[m] = append(f2.Rest[m], gcrypto.SparseSignature{KeyID: append([]byte(nil), ss.KeyID...), Sig: append([]byte(nil), ss.Sig...)})
				}
			}
		}
		var target *[]gcrypto.SparseSignature
		restKeys := make([]string, 0, len(f2.Rest))
		for m := range f2.Rest {
			restKeys = append(restKeys, m)
		}
		sort.Strings(restKeys)
		which := s.Choose("corrupt-where", 1+len(restKeys))
		if which == 0 {
			target = &f2.MainSignatures
		} else {
			l := f2.Rest[restKeys[which-1]]
			target = &l
			defer func(k string) { _ = k }(restKeys[which-1])
		}
		kind := s.Choose("corrupt-kind", 8)
		cdesc := ""
		switch kind {
		case 0:
			if len(*target) > 0 {
				(*target)[0].KeyID = (*target)[0].KeyID[:s.Choose("kidlen", len((*target)[0].KeyID)+1)]
				cdesc = "key id truncated"
			}
		case 1:
			if len(*target) > 0 && len((*target)[0].KeyID) > 0 {
				e := s.Choose("entry", len(*target))
				if len((*target)[e].KeyID) > 0 {
					(*target)[e].KeyID[s.Choose("kidbyte", len((*target)[e].KeyID))] ^= byte(1 + s.Choose("kidxor", 255))
					cdesc = "key id byte changed"
				}
			}
		case 2:
			if len(*target) > 0 {
				(*target)[0].KeyID = append((*target)[0].KeyID, byte(s.Choose("extra", 256)), byte(s.Choose("extra", 256)))
				cdesc = "key id extended"
			}
		case 3:
			if len(*target) > 0 {
				sg := (*target)[0].Sig
				(*target)[0].Sig = sg[:s.Choose("siglen", len(sg)+1)]
				cdesc = "signature truncated"
			}
		case 4:
			if len(*target) > 0 && len((*target)[0].Sig) > 0 {
				(*target)[0].Sig[s.Choose("sigbyte", len((*target)[0].Sig))] ^= 0x40
				cdesc = "signature bit flipped"
			}
		case 5:
			*target = nil
			cdesc = "signatures removed"
		case 6:
			f2.Keys = f2.Keys[:s.Choose("nkeys", len(f2.Keys)+1)]
			cdesc = "key list shortened"
		case 7:
			if len(*target) > 0 {
				*target = append(*target, (*target)[0])
				cdesc = "entry duplicated"
			}
		}
		if which > 0 {
			f2.Rest[restKeys[which-1]] = *target
		}
		if cdesc == "" {
			continue
		}
		s.Fault("finalized:" + strings.Fields(cdesc)[0])
		var cgot map[string]*bitset.BitSet
		guard(s, key+"/ValidateFinalizedProof", func() string {
			return fmt.Sprintf("%s | corrupted: %s (part %d) | %s", strings.Join(desc, " "), cdesc, which, pfDescribeFin(f2))
		}, func() {
			cgot, _ = K.scheme.ValidateFinalizedProof(f2, hashes)
		})
		// a finalized proof in which one signature of an entry was damaged (the others of that entry are
		// genuine) must not validate: no signer set may be reported on the strength of a proof that
		// contains a signature that does not verify (simple scheme: every signature is checked on its own)
		if kind == 4 && !K.bls && cgot != nil {
			s.Violate(key+"/finalized-forged-signature-validates", "a finalized proof validates although a signature in it was damaged (part %d, %d signatures in that entry): %s | %s", which, len(*target), strings.Join(desc, " "), pfDescribeFin(f2))
		}
	}
}

func pfDescribeFin(f gcrypto.FinalizedCommonMessageSignatureProof) string {
	var b strings.Builder
	fmt.Fprintf(&b, "keys=%d main=[", len(f.Keys))
	for _, ss := range f.MainSignatures {
		fmt.Fprintf(&b, "{id=%x siglen=%d}", ss.KeyID, len(ss.Sig))
	}
	b.WriteString("] rest=[")
	ks := make([]string, 0, len(f.Rest))
	for k := range f.Rest {
		ks = append(ks, k)
	}
	sort.Strings(ks)
	for _, k := range ks {
		for _, ss := range f.Rest[k] {
			fmt.Fprintf(&b, "{id=%x siglen=%d}", ss.KeyID, len(ss.Sig))
		}
	}
	b.WriteString("]")
	return b.String()
}

func blockWeights(n int) []int {
	w := make([]int, n)
	for i := range w {
		w[i] = 1
	}
	w[0] = 3
	return w
}
