//go:build verif

package vsimleaf

import (
	"context"
	"encoding/binary"
	"fmt"
	"sort"
	"strings"

	"github.com/bits-and-blooms/bitset"
	"github.com/gordian-engine/gordian/gcrypto"
	"github.com/gordian-engine/gordian/internal/vsimcore"
	"github.com/gordian-engine/gordian/tm/tmconsensus"
	"github.com/gordian-engine/gordian/tm/tmconsensus/tmconsensustest"
	"github.com/gordian-engine/gordian/tm/tmengine/tmelink"
	"github.com/gordian-engine/gordian/tm/tmgossip"
)

// H-GOSSIP: the real ChattyStrategy fed generated NetworkViewUpdate sequences (views switching
// height/round, votes growing, new block hashes, equal signer count but different signer/target
// sets, several proposals, nil-voted rounds, any subset of the view slots per update), with the
// broadcaster's three channels read at scheduler-chosen times (back-pressure).

func init() { Harnesses["gossip"] = runGossip }

type gsBroadcaster struct {
	ph chan tmconsensus.ProposedHeader
	pv chan tmconsensus.PrevoteSparseProof
	pc chan tmconsensus.PrecommitSparseProof
}

func (b gsBroadcaster) OutgoingProposedHeaders() chan<- tmconsensus.ProposedHeader       { return b.ph }
func (b gsBroadcaster) OutgoingPrevoteProofs() chan<- tmconsensus.PrevoteSparseProof     { return b.pv }
func (b gsBroadcaster) OutgoingPrecommitProofs() chan<- tmconsensus.PrecommitSparseProof { return b.pc }

// gsView is the harness's own picture of one round view.
type gsView struct {
	H       uint64
	R       uint32
	PHs     []string                   // proposed header hashes (unique ids)
	Votes   [2]map[string]map[int]bool // [prevote, precommit] hash -> signer set
	Version uint32
}

func newGsView(h uint64, r uint32) *gsView {
	return &gsView{H: h, R: r, Votes: [2]map[string]map[int]bool{{}, {}}}
}

type gsWorld struct {
	s      *vsimcore.Sim
	n      int
	vals   tmconsensustest.PrivVals
	pubs   []gcrypto.PubKey
	ss     tmconsensus.SignatureScheme
	sigs   map[string][]byte
	nextPH int
}

func (w *gsWorld) sig(kind int, h uint64, r uint32, hash string, i int) []byte {
	k := fmt.Sprintf("%d/%d/%d/%x/%d", kind, h, r, hash, i)
	if b, ok := w.sigs[k]; ok {
		return b
	}
	vt := tmconsensus.VoteTarget{Height: h, Round: r, BlockHash: hash}
	var sb []byte
	var err error
	if kind == 0 {
		sb, err = tmconsensus.PrevoteSignBytes(vt, w.ss)
	} else {
		sb, err = tmconsensus.PrecommitSignBytes(vt, w.ss)
	}
	if err != nil {
		panic(err)
	}
	b, err := w.vals[i].Signer.Sign(context.Background(), sb)
	if err != nil {
		panic(err)
	}
	w.sigs[k] = b
	return b
}

// build converts the harness view into the engine's type with real signature proofs.
func (w *gsWorld) build(v *gsView) *tmconsensus.VersionedRoundView {
	out := &tmconsensus.VersionedRoundView{Version: v.Version}
	out.Height, out.Round = v.H, v.R
	for _, id := range v.PHs {
		hash, prop := gsSplitPH(id)
		out.ProposedHeaders = append(out.ProposedHeaders, tmconsensus.ProposedHeader{
			Header: tmconsensus.Header{Height: v.H, Hash: []byte(hash)}, Round: v.R, ProposerPubKey: w.pubs[prop%len(w.pubs)], Signature: []byte("sig-" + id)})
	}
	for kind := 0; kind < 2; kind++ {
		m := map[string]gcrypto.CommonMessageSignatureProof{}
		for hash, signers := range v.Votes[kind] {
			vt := tmconsensus.VoteTarget{Height: v.H, Round: v.R, BlockHash: hash}
			var sb []byte
			if kind == 0 {
				sb, _ = tmconsensus.PrevoteSignBytes(vt, w.ss)
			} else {
				sb, _ = tmconsensus.PrecommitSignBytes(vt, w.ss)
			}
			pr, err := gcrypto.NewSimpleCommonMessageSignatureProof(sb, w.pubs, "pkh")
			if err != nil {
				panic(err)
			}
			for i := range signers {
				if err := pr.AddSignature(w.sig(kind, v.H, v.R, hash, i), w.pubs[i]); err != nil {
					panic(err)
				}
			}
			m[hash] = pr
		}
		if kind == 0 {
			out.PrevoteProofs = m
		} else {
			out.PrecommitProofs = m
		}
	}
	return out
}

// gsSplitPH: a proposed header id is "hash" or "hash@p" (the same block proposed by validator p as
// well: same hash, other proposer key and signature - a different proposed header).
func gsSplitPH(id string) (hash string, proposer int) {
	if i := strings.IndexByte(id, '@'); i >= 0 {
		fmt.Sscanf(id[i+1:], "%d", &proposer)
		return id[:i], proposer
	}
	return id, 0
}

func (v *gsView) facts(into map[string]bool) {
	for _, id := range v.PHs {
		into[fmt.Sprintf("ph/%d/%d/%s", v.H, v.R, id)] = true
	}
	for kind := 0; kind < 2; kind++ {
		for hash, signers := range v.Votes[kind] {
			for i := range signers {
				into[fmt.Sprintf("%s/%d/%d/%x/%d", [...]string{"prevote", "precommit"}[kind], v.H, v.R, hash, i)] = true
			}
		}
	}
}

func (v *gsView) clone() *gsView {
	c := newGsView(v.H, v.R)
	c.PHs = append([]string(nil), v.PHs...)
	c.Version = v.Version
	for k := 0; k < 2; k++ {
		for h, s := range v.Votes[k] {
			c.Votes[k][h] = map[int]bool{}
			for i := range s {
				c.Votes[k][h][i] = true
			}
		}
	}
	return c
}

func runGossip(s *vsimcore.Sim, p vsimcore.Params) vsimcore.RunInfo {
	var info vsimcore.RunInfo
	n := 3 + s.Choose("validators", 4)
	w := &gsWorld{s: s, n: n, vals: tmconsensustest.DeterministicValidatorsEd25519(n), ss: tmconsensustest.SimpleSignatureScheme{}, sigs: map[string][]byte{}}
	for _, v := range w.vals {
		w.pubs = append(w.pubs, v.Val.PubKey)
	}
	nUpdates := 3 + s.Choose("updates", 10)
	equivocation := s.Pct("equivocators", 60)
	handed := map[string]bool{}  // every fact contained in a view handed over so far
	sent := map[string]bool{}    // every fact offered to the broadcaster so far
	allowed := map[string]bool{} // facts that may be broadcast but are not owed
	var sample []string
	hashesOf := func(v *gsView) []string {
		out := []string{""}
		for _, id := range v.PHs {
			if h, _ := gsSplitPH(id); !containsString(out[1:], h) {
				out = append(out, h)
			}
		}
		return out
	}

	s.Bubble(func() {
		ctx, cancel := context.WithCancel(context.Background())
		bc := gsBroadcaster{make(chan tmconsensus.ProposedHeader), make(chan tmconsensus.PrevoteSparseProof), make(chan tmconsensus.PrecommitSparseProof)}
		gs := tmgossip.NewChattyStrategy(ctx, quietLog(), bc)
		updates := make(chan tmelink.NetworkViewUpdate)
		gs.Start(updates)

		record := func(kind string, h uint64, r uint32, proofs map[string][]gcrypto.SparseSignature) {
			for hash, sigs := range proofs {
				for _, sg := range sigs {
					if len(sg.KeyID) != 2 {
						s.Violate("C17/malformed-broadcast", "broadcast %s with key id %x", kind, sg.KeyID)
						continue
					}
					i := int(binary.BigEndian.Uint16(sg.KeyID))
					f := fmt.Sprintf("%s/%d/%d/%x/%d", kind, h, r, hash, i)
					if !handed[f] && !allowed[f] {
						s.Violate("C17/invented/"+kind, "broadcast %s that was in no view handed over", f)
					}
					if i < n && string(sg.Sig) != string(w.sig(map[string]int{"prevote": 0, "precommit": 1}[kind], h, r, hash, i)) {
						s.Violate("C17/invented/"+kind+"-signature", "broadcast %s with signature bytes that were in no view", f)
					}
					sent[f] = true
				}
			}
		}
		// the broadcaster side: one goroutine per channel, each receive is a scheduler decision
		go func() {
			for {
				select {
				case <-ctx.Done():
					return
				case ph := <-bc.ph:
					s.ParkID("bc", "recv", "ph")
					f := fmt.Sprintf("ph/%d/%d/%s", ph.Header.Height, ph.Round, strings.TrimPrefix(string(ph.Signature), "sig-"))
					if !handed[f] && !allowed[f] {
						s.Violate("C17/invented/proposed-header", "broadcast %s that was in no view handed over", f)
					}
					sent[f] = true
				case pv := <-bc.pv:
					s.ParkID("bc", "recv", "pv")
					record("prevote", pv.Height, pv.Round, pv.Proofs)
				case pc := <-bc.pc:
					s.ParkID("bc", "recv", "pc")
					record("precommit", pc.Height, pc.Round, pc.Proofs)
				}
			}
		}()

		// the world as the mirror kernel would keep it
		voting := newGsView(1, 0)
		next := newGsView(1, 1)
		var committing *gsView
		voting.Version, next.Version = 1, 1

		mutate := func(v *gsView) bool {
			switch s.ChooseW("mut", []int{2, 5, 5}) {
			case 0:
				if len(v.PHs) >= 3 {
					return false
				}
				if len(v.PHs) > 0 && s.Pct("same-block-other-proposer", 25) {
					// a second validator proposes the same block: same hash, its own key and signature
					base, _ := gsSplitPH(v.PHs[s.Choose("which", len(v.PHs))])
					id := fmt.Sprintf("%s@%d", base, 1+s.Choose("proposer", 3))
					if containsString(v.PHs, id) {
						return false
					}
					v.PHs = append(v.PHs, id)
					break
				}
				w.nextPH++
				v.PHs = append(v.PHs, fmt.Sprintf("blk%d", w.nextPH))
			default:
				kind := s.Choose("votekind", 2)
				hs := hashesOf(v)
				hash := hs[s.Choose("votehash", len(hs))]
				i := s.Choose("voter", n)
				if !equivocation {
					for h2, sg := range v.Votes[kind] {
						if h2 != hash && sg[i] {
							return false // honest validators vote once
						}
					}
				}
				if v.Votes[kind][hash] == nil {
					v.Votes[kind][hash] = map[int]bool{}
				}
				if v.Votes[kind][hash][i] {
					return false
				}
				v.Votes[kind][hash][i] = true
			}
			v.Version++
			return true
		}

		for u := 0; u < nUpdates && !s.Failed(); u++ {
			var upd tmelink.NetworkViewUpdate
			changed := map[string]bool{}
			var nilVoted *gsView
			nChanges := 1 + s.Choose("coalesce", 4)
			for c := 0; c < nChanges; c++ {
				ch := s.ChooseW("change", []int{8, 3, 2, 2, 1, 1})
				if u == 0 && ch >= 3 {
					ch = 0 // the first update is the kernel's initial state: no round has ended yet
				}
				switch ch {
				case 0:
					if mutate(voting) {
						changed["voting"] = true
					}
				case 1:
					if mutate(next) {
						changed["next"] = true
					}
				case 2:
					if committing != nil && mutate(committing) {
						changed["committing"] = true
					}
				case 3: // the round ends in a nil commit: the view being left is handed over once more
					nilVoted = voting.clone()
					voting = next
					next = newGsView(voting.H, voting.R+1)
					next.Version = 1
					changed["voting"], changed["next"] = true, true
					s.Probe("nil_voted_round")
				case 4: // commit: voting becomes committing
					committing = voting
					voting = newGsView(committing.H+1, 0)
					next = newGsView(committing.H+1, 1)
					voting.Version, next.Version = 1, 1
					changed["voting"], changed["next"], changed["committing"] = true, true, true
					s.Probe("commit")
				case 5: // skipped round (jump ahead)
					voting = newGsView(voting.H, voting.R+2)
					next = newGsView(voting.H, voting.R+1)
					voting.Version, next.Version = 1, 1
					changed["voting"], changed["next"] = true, true
					s.Probe("round_skip")
				}
			}
			if u == 0 {
				changed["voting"] = true // the first update always carries a voting view
			}
			if len(changed) == 0 && nilVoted == nil {
				continue
			}
			var desc []string
			if changed["voting"] {
				upd.Voting = w.build(voting)
				voting.facts(handed)
				desc = append(desc, fmt.Sprintf("V%d/%dv%d", voting.H, voting.R, voting.Version))
			}
			if changed["next"] && s.Pct("omit-next", 20) == false {
				upd.NextRound = w.build(next)
				next.facts(handed)
				desc = append(desc, fmt.Sprintf("N%d/%dv%d", next.H, next.R, next.Version))
			}
			if changed["committing"] && committing != nil {
				upd.Committing = w.build(committing)
				committing.facts(handed)
				desc = append(desc, fmt.Sprintf("C%d/%dv%d", committing.H, committing.R, committing.Version))
			}
			if nilVoted != nil {
				upd.NilVotedRound = w.build(nilVoted)
				// Of a nil-voted round only the final precommits are owed (the property's wording);
				// its proposals and prevotes may be broadcast but need not be.
				all := map[string]bool{}
				nilVoted.facts(all)
				for f := range all {
					if strings.HasPrefix(f, "precommit/") {
						handed[f] = true
					} else {
						allowed[f] = true
					}
				}
				desc = append(desc, fmt.Sprintf("NIL%d/%d", nilVoted.H, nilVoted.R))
			}
			s.Logf("update %s", strings.Join(desc, " "))
			if len(sample) < 12 {
				sample = append(sample, "update "+strings.Join(desc, " "))
			}
			// hand the update over (the strategy may still be busy broadcasting the previous one)
			delivered := make(chan struct{})
			go func() {
				select {
				case updates <- upd:
				case <-ctx.Done():
				}
				close(delivered)
			}()
			// run to quiescence: broadcaster reads are scheduler decisions
			for s.Steps < 4000 {
				vsimcore.Wait()
				acts := s.ParkActions(nil)
				if len(acts) == 0 {
					break
				}
				s.Pick(acts)
			}
			select {
			case <-delivered:
			default:
				s.Violate("C17/stuck", "strategy did not take update %d although the broadcaster was drained", u)
			}
			// completeness at quiescence
			var missing []string
			for f := range handed {
				if !sent[f] {
					missing = append(missing, f)
				}
			}
			if len(missing) > 0 && !s.Failed() {
				sort.Strings(missing)
				kind := strings.SplitN(missing[0], "/", 2)[0]
				s.Violate("C17/not-broadcast/"+kind, "after update %d (%s) the strategy is idle but never offered %d item(s) contained in the views it was handed, e.g. %v\nupdates so far: %v", u, strings.Join(desc, " "), len(missing), missing[:min(len(missing), 4)], sample)
			}
		}
		info.SimNs = int64(s.SimTime())
		cancel()
		s.Stop()
		gs.Wait()
		vsimcore.Wait()
	})
	info.Nontrivial = len(handed) >= 3
	info.States = []string{fmt.Sprintf("n%d/f%d/eq%t", n, min(len(handed)/4, 8), equivocation)}
	info.Sample = map[string]any{"harness": "gossip", "validators": n, "equivocation": equivocation, "updates": sample, "facts_handed_over": len(handed)}
	_ = bitset.New
	return info
}

func containsString(l []string, x string) bool {
	for _, y := range l {
		if y == x {
			return true
		}
	}
	return false
}
