//go:build verif

package vsimleaf

import (
	"context"
	"errors"
	"fmt"
	"sort"
	"strings"

	"github.com/anishathalye/porcupine"
	"github.com/gordian-engine/gordian/gcrypto"
	"github.com/gordian-engine/gordian/internal/vsimcore"
	"github.com/gordian-engine/gordian/tm/tmconsensus"
	"github.com/gordian-engine/gordian/tm/tmconsensus/tmconsensustest"
	"github.com/gordian-engine/gordian/tm/tmstore"
	"github.com/gordian-engine/gordian/tm/tmstore/tmmemstore"
)

// H-STORE: the seven real memstores, instrumented by vinst (statement yields + TryLock loops),
// 2-4 client goroutines, token-passing scheduler, sequential reference models, porcupine.

func init() { Harnesses["stores"] = runStores }

type stOp struct {
	Kind    string
	H       uint64
	R       uint32
	A, B, C int
	ID      int
}

func (o stOp) String() string {
	return fmt.Sprintf("%s(h=%d r=%d a=%d b=%d c=%d id=%d)", o.Kind, o.H, o.R, o.A, o.B, o.C, o.ID)
}

// storeKit binds one real store to its generator, executor and sequential model.
// The model's step returns the set of acceptable outputs and the next state.
type storeKit struct {
	name  string
	gen   func(s *vsimcore.Sim, id int) stOp
	exec  func(ctx context.Context, o stOp) string
	init  any
	step  func(st any, o stOp) (accept []string, next any)
	key   func(st any) string
	reads func(o stOp) bool
}

var stVals = tmconsensustest.DeterministicValidatorsEd25519(3)

func stPub(i int) gcrypto.PubKey { return stVals[i].Val.PubKey }

func errClass(err error) string {
	if err == nil {
		return "ok"
	}
	var (
		de  tmstore.DoubleActionError
		pk  tmstore.PubKeyChangedError
		ow  tmstore.OverwriteError
		fo  tmstore.FinalizationOverwriteError
		ru  tmconsensus.RoundUnknownError
		hu  tmconsensus.HeightUnknownError
		pke tmstore.PubKeysAlreadyExistError
		vpe tmstore.VotePowersAlreadyExistError
		npk tmstore.NoPubKeyHashError
		nvp tmstore.NoVotePowerHashError
		mm  tmstore.PubKeyPowerCountMismatchError
	)
	switch {
	case errors.As(err, &de):
		return "double:" + de.Type
	case errors.As(err, &pk):
		return "keychanged:" + pk.ActionType
	case errors.As(err, &ow):
		return "overwrite:" + ow.Field
	case errors.As(err, &fo):
		return fmt.Sprintf("finoverwrite:%d", fo.Height)
	case errors.As(err, &ru):
		return fmt.Sprintf("roundunknown:%d/%d", ru.WantHeight, ru.WantRound)
	case errors.As(err, &hu):
		return fmt.Sprintf("heightunknown:%d", hu.Want)
	case errors.Is(err, tmstore.ErrStoreUninitialized):
		return "uninitialized"
	case errors.As(err, &pke):
		return "pubkeysexist"
	case errors.As(err, &vpe):
		return "powersexist"
	case errors.As(err, &npk) && errors.As(err, &nvp):
		return "nokeys+nopowers"
	case errors.As(err, &npk):
		return "nokeys"
	case errors.As(err, &nvp):
		return "nopowers"
	case errors.As(err, &mm):
		return fmt.Sprintf("countmismatch:%d/%d", mm.NPubKeys, mm.NVotePower)
	}
	return "othererr:" + err.Error()
}

func cloneMap[K comparable, V any](m map[K]V) map[K]V {
	n := make(map[K]V, len(m)+1)
	for k, v := range m {
		n[k] = v
	}
	return n
}

func sortedKey[V any](m map[string]V) string {
	ks := make([]string, 0, len(m))
	for k := range m {
		ks = append(ks, k)
	}
	sort.Strings(ks)
	var b strings.Builder
	for _, k := range ks {
		fmt.Fprintf(&b, "%s=%v;", k, m[k])
	}
	return b.String()
}

// ---- action store ----------------------------------------------------------

type asRec struct {
	PH           string
	Pub          int // -1 none
	PV, PVSig    string
	PC, PCSig    string
	hasPV, hasPC bool
}

func asEnc(r asRec) string {
	return fmt.Sprintf("ph=%s pub=%d pv=%t/%s/%s pc=%t/%s/%s", r.PH, r.Pub, r.hasPV, r.PV, r.PVSig, r.hasPC, r.PC, r.PCSig)
}

func actionKit() storeKit {
	st := tmmemstore.NewActionStore()
	hashes := []string{"", "hx", "hy"}
	return storeKit{
		name: "action",
		gen: func(s *vsimcore.Sim, id int) stOp {
			o := stOp{H: uint64(1 + s.Choose("h", 2)), R: uint32(s.Choose("r", 2)), ID: id}
			switch s.ChooseW("kind", []int{2, 3, 3, 3}) {
			case 0:
				o.Kind = "SavePH"
			case 1:
				o.Kind, o.A, o.B = "SavePrevote", s.Choose("pub", 2), s.Choose("hash", 3)
			case 2:
				o.Kind, o.A, o.B = "SavePrecommit", s.Choose("pub", 2), s.Choose("hash", 3)
			case 3:
				o.Kind = "Load"
			}
			return o
		},
		exec: func(ctx context.Context, o stOp) string {
			switch o.Kind {
			case "SavePH":
				ph := tmconsensus.ProposedHeader{Header: tmconsensus.Header{Height: o.H, Hash: []byte(fmt.Sprintf("ph%d", o.ID))}, Round: o.R, ProposerPubKey: stPub(0)}
				return errClass(st.SaveProposedHeaderAction(ctx, ph))
			case "SavePrevote":
				return errClass(st.SavePrevoteAction(ctx, stPub(o.A), tmconsensus.VoteTarget{Height: o.H, Round: o.R, BlockHash: hashes[o.B]}, []byte(fmt.Sprintf("sig%d", o.ID))))
			case "SavePrecommit":
				return errClass(st.SavePrecommitAction(ctx, stPub(o.A), tmconsensus.VoteTarget{Height: o.H, Round: o.R, BlockHash: hashes[o.B]}, []byte(fmt.Sprintf("sig%d", o.ID))))
			default:
				ra, err := st.LoadActions(ctx, o.H, o.R)
				if err != nil {
					return errClass(err)
				}
				rec := asRec{PH: string(ra.ProposedHeader.Header.Hash), Pub: -1, PV: ra.PrevoteTarget, PVSig: ra.PrevoteSignature, PC: ra.PrecommitTarget, PCSig: ra.PrecommitSignature,
					hasPV: ra.PrevoteSignature != "", hasPC: ra.PrecommitSignature != ""}
				for i := 0; i < 3; i++ {
					if ra.PubKey != nil && ra.PubKey.Equal(stPub(i)) {
						rec.Pub = i
					}
				}
				if ra.Height != o.H || ra.Round != o.R {
					return fmt.Sprintf("WRONG-HR %d/%d", ra.Height, ra.Round)
				}
				return "ok " + asEnc(rec)
			}
		},
		init: map[string]asRec{},
		step: func(sta any, o stOp) ([]string, any) {
			m := sta.(map[string]asRec)
			k := fmt.Sprintf("%d/%d", o.H, o.R)
			rec, ok := m[k]
			if !ok {
				rec.Pub = -1
			}
			switch o.Kind {
			case "SavePH":
				if ok && rec.PH != "" {
					return []string{"double:proposed block"}, m
				}
				rec.PH = fmt.Sprintf("ph%d", o.ID)
			case "SavePrevote", "SavePrecommit":
				typ := "prevote"
				has := rec.hasPV
				if o.Kind == "SavePrecommit" {
					typ, has = "precommit", rec.hasPC
				}
				var refuse []string
				if has {
					refuse = append(refuse, "double:"+typ)
				}
				if rec.Pub >= 0 && rec.Pub != o.A {
					refuse = append(refuse, "keychanged:"+typ)
				}
				if len(refuse) > 0 {
					return refuse, m // either refusal is acceptable when both apply
				}
				if typ == "prevote" {
					rec.hasPV, rec.PV, rec.PVSig = true, hashes[o.B], fmt.Sprintf("sig%d", o.ID)
				} else {
					rec.hasPC, rec.PC, rec.PCSig = true, hashes[o.B], fmt.Sprintf("sig%d", o.ID)
				}
				rec.Pub = o.A
			default:
				if !ok {
					return []string{fmt.Sprintf("roundunknown:%d/%d", o.H, o.R)}, m
				}
				return []string{"ok " + asEnc(rec)}, m
			}
			n := cloneMap(m)
			n[k] = rec
			return []string{"ok"}, n
		},
		key: func(sta any) string {
			m := sta.(map[string]asRec)
			x := map[string]string{}
			for k, v := range m {
				x[k] = asEnc(v)
			}
			return sortedKey(x)
		},
	}
}

// ---- finalization store ----------------------------------------------------

func finKit() storeKit {
	st := tmmemstore.NewFinalizationStore()
	hs := tmconsensustest.SimpleHashScheme{}
	vset := func(n int) tmconsensus.ValidatorSet {
		vals := make([]tmconsensus.Validator, n)
		for i := range vals {
			vals[i] = stVals[i].Val
		}
		vs, err := tmconsensus.NewValidatorSet(vals, hs)
		if err != nil {
			panic(err)
		}
		return vs
	}
	sets := []tmconsensus.ValidatorSet{vset(1), vset(2), vset(3)}
	enc := func(r uint32, hash string, vs tmconsensus.ValidatorSet, app string) string {
		return fmt.Sprintf("r=%d hash=%s vals=%d/%x app=%s", r, hash, len(vs.Validators), vs.PubKeyHash, app)
	}
	return storeKit{
		name: "finalization",
		gen: func(s *vsimcore.Sim, id int) stOp {
			o := stOp{H: uint64(s.Choose("h", 3)), ID: id}
			if s.ChooseW("kind", []int{3, 2}) == 0 {
				o.Kind, o.R, o.A = "Save", uint32(s.Choose("r", 2)), s.Choose("set", 3)
			} else {
				o.Kind = "Load"
			}
			return o
		},
		exec: func(ctx context.Context, o stOp) string {
			if o.Kind == "Save" {
				return errClass(st.SaveFinalization(ctx, o.H, o.R, fmt.Sprintf("bh%d", o.ID), sets[o.A], fmt.Sprintf("app%d", o.ID)))
			}
			r, bh, vs, app, err := st.LoadFinalizationByHeight(ctx, o.H)
			if err != nil {
				return errClass(err)
			}
			return "ok " + enc(r, bh, vs, app)
		},
		init: map[string]string{},
		step: func(sta any, o stOp) ([]string, any) {
			m := sta.(map[string]string)
			k := fmt.Sprint(o.H)
			if o.Kind == "Save" {
				if _, ok := m[k]; ok {
					return []string{fmt.Sprintf("finoverwrite:%d", o.H)}, m
				}
				n := cloneMap(m)
				n[k] = enc(o.R, fmt.Sprintf("bh%d", o.ID), sets[o.A], fmt.Sprintf("app%d", o.ID))
				return []string{"ok"}, n
			}
			if v, ok := m[k]; ok {
				return []string{"ok " + v}, m
			}
			return []string{fmt.Sprintf("heightunknown:%d", o.H)}, m
		},
		key: func(sta any) string { return sortedKey(sta.(map[string]string)) },
	}
}

// ---- committed header store ------------------------------------------------

func chKit() storeKit {
	st := tmmemstore.NewCommittedHeaderStore()
	return storeKit{
		name: "committedheader",
		gen: func(s *vsimcore.Sim, id int) stOp {
			o := stOp{H: uint64(1 + s.Choose("h", 3)), ID: id}
			if s.ChooseW("kind", []int{3, 3}) == 0 {
				o.Kind = "Save"
			} else {
				o.Kind = "Load"
			}
			return o
		},
		exec: func(ctx context.Context, o stOp) string {
			if o.Kind == "Save" {
				ch := tmconsensus.CommittedHeader{Header: tmconsensus.Header{Height: o.H, Hash: []byte(fmt.Sprintf("ch%d", o.ID))},
					Proof: tmconsensus.CommitProof{Round: uint32(o.ID), PubKeyHash: fmt.Sprintf("pkh%d", o.ID)}}
				return errClass(st.SaveCommittedHeader(ctx, ch))
			}
			ch, err := st.LoadCommittedHeader(ctx, o.H)
			if err != nil {
				return errClass(err)
			}
			return fmt.Sprintf("ok h=%d hash=%s round=%d pkh=%s", ch.Header.Height, ch.Header.Hash, ch.Proof.Round, ch.Proof.PubKeyHash)
		},
		init: map[string]string{},
		step: func(sta any, o stOp) ([]string, any) {
			m := sta.(map[string]string)
			k := fmt.Sprint(o.H)
			if o.Kind == "Save" {
				n := cloneMap(m)
				n[k] = fmt.Sprintf("h=%d hash=ch%d round=%d pkh=pkh%d", o.H, o.ID, o.ID, o.ID)
				return []string{"ok"}, n
			}
			if v, ok := m[k]; ok {
				return []string{"ok " + v}, m
			}
			return []string{fmt.Sprintf("heightunknown:%d", o.H)}, m
		},
		key: func(sta any) string { return sortedKey(sta.(map[string]string)) },
	}
}

// ---- mirror store and state machine store ----------------------------------

func mirrorKit() storeKit {
	st := tmmemstore.NewMirrorStore()
	return storeKit{
		name: "mirror",
		gen: func(s *vsimcore.Sim, id int) stOp {
			o := stOp{ID: id}
			if s.ChooseW("kind", []int{3, 3}) == 0 {
				o.Kind, o.H, o.R, o.A, o.B = "Set", uint64(1+s.Choose("vh", 4)), uint32(s.Choose("vr", 3)), s.Choose("ch", 4), s.Choose("cr", 3)
			} else {
				o.Kind = "Get"
			}
			return o
		},
		exec: func(ctx context.Context, o stOp) string {
			if o.Kind == "Set" {
				return errClass(st.SetNetworkHeightRound(ctx, o.H, o.R, uint64(o.A), uint32(o.B)))
			}
			vh, vr, ch, cr, err := st.NetworkHeightRound(ctx)
			if err != nil {
				return errClass(err)
			}
			return fmt.Sprintf("ok %d/%d %d/%d", vh, vr, ch, cr)
		},
		init: "",
		step: func(sta any, o stOp) ([]string, any) {
			cur := sta.(string)
			if o.Kind == "Set" {
				return []string{"ok"}, fmt.Sprintf("%d/%d %d/%d", o.H, o.R, o.A, o.B)
			}
			if cur == "" {
				return []string{"uninitialized"}, cur
			}
			return []string{"ok " + cur}, cur
		},
		key: func(sta any) string { return sta.(string) },
	}
}

func smKit() storeKit {
	st := tmmemstore.NewStateMachineStore()
	return storeKit{
		name: "statemachine",
		gen: func(s *vsimcore.Sim, id int) stOp {
			o := stOp{ID: id}
			if s.ChooseW("kind", []int{3, 3}) == 0 {
				o.Kind, o.H, o.R = "Set", uint64(1+s.Choose("h", 5)), uint32(s.Choose("r", 4))
			} else {
				o.Kind = "Get"
			}
			return o
		},
		exec: func(ctx context.Context, o stOp) string {
			if o.Kind == "Set" {
				return errClass(st.SetStateMachineHeightRound(ctx, o.H, o.R))
			}
			h, r, err := st.StateMachineHeightRound(ctx)
			if err != nil {
				return errClass(err)
			}
			return fmt.Sprintf("ok %d/%d", h, r)
		},
		init: "",
		step: func(sta any, o stOp) ([]string, any) {
			cur := sta.(string)
			if o.Kind == "Set" {
				return []string{"ok"}, fmt.Sprintf("%d/%d", o.H, o.R)
			}
			if cur == "" {
				return []string{"uninitialized"}, cur
			}
			return []string{"ok " + cur}, cur
		},
		key: func(sta any) string { return sta.(string) },
	}
}

// ---- round store -----------------------------------------------------------

type rsState struct {
	PHs      map[string]string // "h/r/hash/proposer" -> "1"
	PV, PC   map[string]string // "h/r" -> collection encoding
	Replayed map[string]string // "h/hash" -> "1"
}

func (r rsState) clone() rsState {
	return rsState{PHs: cloneMap(r.PHs), PV: cloneMap(r.PV), PC: cloneMap(r.PC), Replayed: cloneMap(r.Replayed)}
}

var rsHashes = []string{"", "hx", "hy"}

// collection built from (id, mask over rsHashes)
func rsColl(id, mask int) tmconsensus.SparseSignatureCollection {
	c := tmconsensus.SparseSignatureCollection{PubKeyHash: []byte(fmt.Sprintf("pkh%d", id)), BlockSignatures: map[string][]gcrypto.SparseSignature{}}
	for i, h := range rsHashes {
		if mask&(1<<i) != 0 {
			c.BlockSignatures[h] = []gcrypto.SparseSignature{{KeyID: []byte{0, byte(i)}, Sig: []byte(fmt.Sprintf("s%d.%d", id, i))}}
		}
	}
	return c
}

func rsCollEnc(c tmconsensus.SparseSignatureCollection) string {
	if c.BlockSignatures == nil {
		return "none"
	}
	m := map[string]string{}
	for h, sigs := range c.BlockSignatures {
		var parts []string
		for _, sg := range sigs {
			parts = append(parts, fmt.Sprintf("%x:%s", sg.KeyID, sg.Sig))
		}
		m["<"+h+">"] = strings.Join(parts, ",")
	}
	return fmt.Sprintf("pkh=%s{%s}", c.PubKeyHash, sortedKey(m))
}

func roundKit() storeKit {
	st := tmmemstore.NewRoundStore()
	return storeKit{
		name: "round",
		gen: func(s *vsimcore.Sim, id int) stOp {
			o := stOp{H: uint64(1 + s.Choose("h", 2)), R: uint32(s.Choose("r", 2)), ID: id}
			switch s.ChooseW("kind", []int{3, 2, 2, 2, 4}) {
			case 0:
				o.Kind, o.A, o.B = "SavePH", 1+s.Choose("hash", 2), s.Choose("proposer", 2)
			case 1:
				o.Kind, o.A = "SaveReplayed", 1+s.Choose("hash", 2)
			case 2:
				o.Kind, o.A = "OverwritePrevotes", s.Choose("mask", 8)
			case 3:
				o.Kind, o.A = "OverwritePrecommits", s.Choose("mask", 8)
			default:
				o.Kind = "Load"
			}
			return o
		},
		exec: func(ctx context.Context, o stOp) string {
			switch o.Kind {
			case "SavePH":
				ph := tmconsensus.ProposedHeader{Header: tmconsensus.Header{Height: o.H, Hash: []byte(rsHashes[o.A])}, Round: o.R, ProposerPubKey: stPub(o.B), Signature: []byte(fmt.Sprintf("phsig%d", o.ID))}
				return errClass(st.SaveRoundProposedHeader(ctx, ph))
			case "SaveReplayed":
				return errClass(st.SaveRoundReplayedHeader(ctx, tmconsensus.Header{Height: o.H, Hash: []byte(rsHashes[o.A])}))
			case "OverwritePrevotes":
				return errClass(st.OverwriteRoundPrevoteProofs(ctx, o.H, o.R, rsColl(o.ID, o.A)))
			case "OverwritePrecommits":
				return errClass(st.OverwriteRoundPrecommitProofs(ctx, o.H, o.R, rsColl(o.ID, o.A)))
			}
			phs, pv, pc, err := st.LoadRoundState(ctx, o.H, o.R)
			if err != nil {
				return errClass(err)
			}
			var ps []string
			for _, ph := range phs {
				prop := "replayed"
				for i := 0; i < 3; i++ {
					if ph.ProposerPubKey != nil && ph.ProposerPubKey.Equal(stPub(i)) {
						prop = fmt.Sprint(i)
					}
				}
				if ph.Header.Height != o.H || (prop != "replayed" && ph.Round != o.R) {
					return "WRONG-HR"
				}
				ps = append(ps, fmt.Sprintf("%s/%s", ph.Header.Hash, prop))
			}
			sort.Strings(ps)
			return fmt.Sprintf("ok phs=%v pv=%s pc=%s", ps, rsCollEnc(pv), rsCollEnc(pc))
		},
		init: rsState{PHs: map[string]string{}, PV: map[string]string{}, PC: map[string]string{}, Replayed: map[string]string{}},
		step: func(sta any, o stOp) ([]string, any) {
			m := sta.(rsState)
			hr := fmt.Sprintf("%d/%d", o.H, o.R)
			switch o.Kind {
			case "SavePH":
				k := fmt.Sprintf("%s/%s/%d", hr, rsHashes[o.A], o.B)
				if _, ok := m.PHs[k]; ok {
					return []string{"overwrite:pubkey"}, m
				}
				n := m.clone()
				n.PHs[k] = "1"
				return []string{"ok"}, n
			case "SaveReplayed":
				for k := range m.PHs {
					p := strings.Split(k, "/")
					if p[0] == fmt.Sprint(o.H) && p[2] == rsHashes[o.A] {
						return []string{"overwrite:hash"}, m
					}
				}
				n := m.clone()
				k := fmt.Sprintf("%d/%s", o.H, rsHashes[o.A])
				cnt := 0
				fmt.Sscan(n.Replayed[k], &cnt)
				n.Replayed[k] = fmt.Sprint(cnt + 1)
				return []string{"ok"}, n
			case "OverwritePrevotes":
				n := m.clone()
				n.PV[hr] = fmt.Sprintf("%d|%d", o.ID, o.A)
				return []string{"ok"}, n
			case "OverwritePrecommits":
				n := m.clone()
				n.PC[hr] = fmt.Sprintf("%d|%d", o.ID, o.A)
				return []string{"ok"}, n
			}
			var ps []string
			for k := range m.PHs {
				if strings.HasPrefix(k, hr+"/") {
					p := strings.Split(k, "/")
					ps = append(ps, p[2]+"/"+p[3])
				}
			}
			dec := func(v string) (tmconsensus.SparseSignatureCollection, int, bool) {
				if v == "" {
					return tmconsensus.SparseSignatureCollection{}, 0, false
				}
				var id, mask int
				fmt.Sscanf(v, "%d|%d", &id, &mask)
				return rsColl(id, mask), mask, true
			}
			pv, _, hasPV := dec(m.PV[hr])
			pc, pcMask, hasPC := dec(m.PC[hr])
			if hasPC {
				for i, h := range rsHashes {
					if h == "" || pcMask&(1<<i) == 0 {
						continue
					}
					cnt := 0
					fmt.Sscan(m.Replayed[fmt.Sprintf("%d/%s", o.H, h)], &cnt)
					for j := 0; j < cnt; j++ {
						ps = append(ps, h+"/replayed")
					}
				}
			}
			if len(ps) == 0 && !hasPV && !hasPC {
				return []string{fmt.Sprintf("roundunknown:%d/%d", o.H, o.R)}, m
			}
			sort.Strings(ps)
			return []string{fmt.Sprintf("ok phs=%v pv=%s pc=%s", ps, rsCollEnc(pv), rsCollEnc(pc))}, m
		},
		key: func(sta any) string {
			m := sta.(rsState)
			return sortedKey(m.PHs) + "|" + sortedKey(m.PV) + "|" + sortedKey(m.PC) + "|" + sortedKey(m.Replayed)
		},
	}
}

// ---- validator store -------------------------------------------------------

func valKit() storeKit {
	hs := tmconsensustest.SimpleHashScheme{}
	st := tmmemstore.NewValidatorStore(hs)
	keySets := [][]int{{0, 1}, {1, 0}, {0, 1, 2}, {2}}
	powSets := [][]uint64{{1, 2}, {2, 1}, {1, 2, 3}, {5}}
	keysOf := func(i int) []gcrypto.PubKey {
		var out []gcrypto.PubKey
		for _, k := range keySets[i] {
			out = append(out, stPub(k))
		}
		return out
	}
	keyHash := make([]string, len(keySets))
	powHash := make([]string, len(powSets))
	for i := range keySets {
		h, _ := hs.PubKeys(keysOf(i))
		keyHash[i] = string(h)
	}
	for i := range powSets {
		h, _ := hs.VotePowers(powSets[i])
		powHash[i] = string(h)
	}
	encKeys := func(ks []gcrypto.PubKey) string {
		var p []string
		for _, k := range ks {
			p = append(p, fmt.Sprintf("%x", k.PubKeyBytes()[:4]))
		}
		return strings.Join(p, ",")
	}
	type vstate struct{ K, P uint } // bitmask of saved sets
	return storeKit{
		name: "validator",
		gen: func(s *vsimcore.Sim, id int) stOp {
			o := stOp{ID: id, A: s.Choose("kset", 4), B: s.Choose("pset", 4)}
			o.Kind = []string{"SaveKeys", "SavePowers", "LoadKeys", "LoadPowers", "LoadValidators"}[s.ChooseW("kind", []int{3, 3, 2, 2, 3})]
			return o
		},
		exec: func(ctx context.Context, o stOp) string {
			switch o.Kind {
			case "SaveKeys":
				h, err := st.SavePubKeys(ctx, keysOf(o.A))
				if h != keyHash[o.A] {
					return "WRONG-HASH"
				}
				return errClass(err)
			case "SavePowers":
				pows := append([]uint64(nil), powSets[o.B]...)
				h, err := st.SaveVotePowers(ctx, pows)
				for i := range pows {
					pows[i] = 999 // the caller's slice is its own again after the call returned
				}
				if h != powHash[o.B] {
					return "WRONG-HASH"
				}
				return errClass(err)
			case "LoadKeys":
				ks, err := st.LoadPubKeys(ctx, keyHash[o.A])
				if err != nil {
					return errClass(err)
				}
				if h, _ := hs.PubKeys(ks); string(h) != keyHash[o.A] {
					return "KEYS-DO-NOT-HASH-TO-REQUEST " + encKeys(ks)
				}
				return "ok " + encKeys(ks)
			case "LoadPowers":
				ps, err := st.LoadVotePowers(ctx, powHash[o.B])
				if err != nil {
					return errClass(err)
				}
				if h, _ := hs.VotePowers(ps); string(h) != powHash[o.B] {
					return fmt.Sprintf("POWERS-DO-NOT-HASH-TO-REQUEST %v", ps)
				}
				return fmt.Sprintf("ok %v", ps)
			default:
				vals, err := st.LoadValidators(ctx, keyHash[o.A], powHash[o.B])
				if err != nil {
					return errClass(err)
				}
				var p []string
				for _, v := range vals {
					p = append(p, fmt.Sprintf("%x:%d", v.PubKey.PubKeyBytes()[:4], v.Power))
				}
				return "ok " + strings.Join(p, ",")
			}
		},
		init: vstate{},
		step: func(sta any, o stOp) ([]string, any) {
			m := sta.(vstate)
			switch o.Kind {
			case "SaveKeys":
				if m.K&(1<<uint(o.A)) != 0 {
					return []string{"pubkeysexist"}, m
				}
				m.K |= 1 << uint(o.A)
				return []string{"ok"}, m
			case "SavePowers":
				if m.P&(1<<uint(o.B)) != 0 {
					return []string{"powersexist"}, m
				}
				m.P |= 1 << uint(o.B)
				return []string{"ok"}, m
			case "LoadKeys":
				if m.K&(1<<uint(o.A)) == 0 {
					return []string{"nokeys"}, m
				}
				return []string{"ok " + encKeys(keysOf(o.A))}, m
			case "LoadPowers":
				if m.P&(1<<uint(o.B)) == 0 {
					return []string{"nopowers"}, m
				}
				return []string{fmt.Sprintf("ok %v", powSets[o.B])}, m
			default:
				hk, hp := m.K&(1<<uint(o.A)) != 0, m.P&(1<<uint(o.B)) != 0
				switch {
				case !hk && !hp:
					return []string{"nokeys+nopowers"}, m
				case !hk:
					return []string{"nokeys"}, m
				case !hp:
					return []string{"nopowers"}, m
				}
				if len(keySets[o.A]) != len(powSets[o.B]) {
					return []string{fmt.Sprintf("countmismatch:%d/%d", len(keySets[o.A]), len(powSets[o.B]))}, m
				}
				var p []string
				for i, k := range keysOf(o.A) {
					p = append(p, fmt.Sprintf("%x:%d", k.PubKeyBytes()[:4], powSets[o.B][i]))
				}
				return []string{"ok " + strings.Join(p, ",")}, m
			}
		},
		key: func(sta any) string { return fmt.Sprint(sta.(vstate)) },
	}
}

var storeKits = []func() storeKit{actionKit, finKit, chKit, mirrorKit, smKit, roundKit, valKit}

func runStores(s *vsimcore.Sim, p vsimcore.Params) vsimcore.RunInfo {
	kitIdx := s.Choose("store", len(storeKits))
	if only := p.Int("store", -1); only >= 0 {
		kitIdx = only
	}
	kit := storeKits[kitIdx]()
	nClients := 2 + s.Choose("clients", 3)
	opsPer := 2 + s.Choose("ops", 4)
	plans := make([][]stOp, nClients)
	id := 0
	for c := range plans {
		for k := 0; k < opsPer; k++ {
			id++
			plans[c] = append(plans[c], kit.gen(s, id))
		}
	}
	h := &hist{}
	var info vsimcore.RunInfo
	s.Attach()
	defer vsimcore.Detach()
	s.Bubble(func() {
		ctx := context.Background()
		doneCh := make(chan struct{}, nClients)
		for c := 0; c < nClients; c++ {
			c := c
			cctx := vsimcore.WithIdent(ctx, fmt.Sprintf("cl%d", c))
			go func() {
				defer func() { doneCh <- struct{}{} }()
				for _, o := range plans[c] {
					s.Park(cctx, "client", "invoke")
					call := h.invoke()
					out := kit.exec(cctx, o)
					h.ret(c, call, o, out)
				}
			}()
		}
		for s.Steps < 20000 {
			vsimcore.Wait()
			acts := s.ParkActions(func(n string) int {
				if strings.Contains(n, "lockwait") {
					return 1
				}
				return 4
			})
			if len(acts) == 0 {
				break
			}
			s.Pick(acts)
		}
		if len(doneCh) != nClients {
			s.Violate("C16/"+kit.name+"/stuck", "only %d of %d clients finished; parked: %v", len(doneCh), nClients, s.Parked())
		}
		s.Stop()
	})

	model := porcupine.Model{
		Init: func() interface{} { return kit.init },
		Step: func(state, input, output interface{}) (bool, interface{}) {
			acc, next := kit.step(state, input.(stOp))
			for _, a := range acc {
				if a == output.(string) {
					return true, next
				}
			}
			return false, state
		},
		Equal: func(a, b interface{}) bool { return kit.key(a) == kit.key(b) },
	}
	info.Inconclusive = checkLinearizable(s, "C16/"+kit.name, model, h.ops, func(op porcupine.Operation) string {
		return fmt.Sprintf("%v -> %s", op.Input.(stOp), op.Output.(string))
	})
	// overlap measure: an operation that started before another one returned
	overlaps := 0
	for i, a := range h.ops {
		for _, b := range h.ops[i+1:] {
			if a.Call < b.Return && b.Call < a.Return {
				overlaps++
			}
		}
	}
	refusals := 0
	for _, op := range h.ops {
		if out := op.Output.(string); !strings.HasPrefix(out, "ok") {
			refusals++
		}
	}
	if overlaps > 0 {
		s.Probe("overlapping_ops")
	}
	if refusals > 0 {
		s.Probe("refusal_or_notfound_returned")
	}
	info.Nontrivial = overlaps > 0
	info.States = []string{fmt.Sprintf("%s/c%d/ov%d/ref%d", kit.name, nClients, min(overlaps, 5), min(refusals, 4))}
	var sample []string
	sorted := append([]porcupine.Operation(nil), h.ops...)
	sort.Slice(sorted, func(a, b int) bool { return sorted[a].Call < sorted[b].Call })
	for _, op := range sorted {
		sample = append(sample, fmt.Sprintf("[%d,%d] c%d %v -> %s", op.Call, op.Return, op.ClientId, op.Input.(stOp), op.Output.(string)))
	}
	info.Sample = map[string]any{"harness": "stores", "store": kit.name, "clients": nClients, "history": sample}
	return info
}
