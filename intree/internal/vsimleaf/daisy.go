//go:build verif

package vsimleaf

import (
	"context"
	"fmt"
	"sort"
	"strings"

	"github.com/gordian-engine/gordian/gexchange"
	"github.com/gordian-engine/gordian/internal/gchan"
	"github.com/gordian-engine/gordian/internal/vsimcore"
	"github.com/gordian-engine/gordian/tm/tmconsensus"
	"github.com/gordian-engine/gordian/tm/tmp2p/tmp2ptest"
)

// H-P2P, in-memory half: the real DaisyChainNetwork (select pre-pass by vinst), line A-B-C.
// A publishes; only B's behaviour is varied (handler verdicts incl. out-of-range values, no
// handler, handler replaced or set to nil at scheduler-chosen instants); C records arrivals.

func init() { Harnesses["daisy"] = runDaisy }

type dzHandler struct {
	s       *vsimcore.Sim
	name    string
	verdict func(id int) gexchange.Feedback
	seen    func(name string, id int, fb gexchange.Feedback)
	park    bool
}

func (h *dzHandler) handle(ctx context.Context, id int) gexchange.Feedback {
	if h.park {
		h.s.ParkID(h.name, "handler", "call")
	}
	fb := h.verdict(id)
	h.seen(h.name, id, fb)
	return fb
}

func (h *dzHandler) HandleProposedHeader(ctx context.Context, ph tmconsensus.ProposedHeader) gexchange.Feedback {
	return h.handle(ctx, int(ph.Header.Height))
}
func (h *dzHandler) HandlePrevoteProofs(ctx context.Context, p tmconsensus.PrevoteSparseProof) gexchange.Feedback {
	return h.handle(ctx, int(p.Height))
}
func (h *dzHandler) HandlePrecommitProofs(ctx context.Context, p tmconsensus.PrecommitSparseProof) gexchange.Feedback {
	return h.handle(ctx, int(p.Height))
}

func runDaisy(s *vsimcore.Sim, p vsimcore.Params) vsimcore.RunInfo {
	var info vsimcore.RunInfo
	nMsgs := 2 + s.Choose("msgs", 7)
	// B's verdict per message, drawn up front
	verdictVals := []gexchange.Feedback{gexchange.FeedbackAccepted, gexchange.FeedbackRejected, gexchange.FeedbackIgnored,
		gexchange.FeedbackRejectAndDisconnect, gexchange.FeedbackUnspecified, 5, 77, 255}
	verdicts := make([]gexchange.Feedback, nMsgs+1)
	for i := 1; i <= nMsgs; i++ {
		verdicts[i] = verdictVals[s.ChooseW("verdict", []int{6, 2, 2, 1, 2, 1, 1, 1})]
	}
	// B's handler state script: each entry is applied at a scheduler-chosen instant
	type swap struct{ kind string } // install | replace | clear
	var swaps []swap
	startInstalled := s.Pct("b-starts-without-handler", 35) == false
	for i, n := 0, s.Choose("swaps", 4); i < n; i++ {
		swaps = append(swaps, swap{[]string{"install", "replace", "clear"}[s.Choose("swapkind", 3)]})
	}

	acceptedByB := map[int]bool{}
	handledByB := map[int][]gexchange.Feedback{}
	arrivedAtC := map[int]bool{}
	var sample []string

	s.AttachSelect()
	defer vsimcore.Detach()
	s.Bubble(func() {
		ctx, cancel := context.WithCancel(context.Background())
		gchan.SimYield = func(ctx context.Context, op, label string) {
			if id := vsimcore.Ident(ctx); id != "" {
				s.Park(ctx, "gchan", op)
			}
		}
		defer func() { gchan.SimYield = nil }()

		net := tmp2ptest.NewDaisyChainNetwork(s.T, ctx)
		connA, errA := net.Connect(ctx)
		connB, errB := net.Connect(ctx)
		connC, errC := net.Connect(ctx)
		if errA != nil || errB != nil || errC != nil {
			s.Violate("C20/daisy/connect", "connect failed: %v %v %v", errA, errB, errC)
			cancel()
			return
		}
		seen := func(name string, id int, fb gexchange.Feedback) {
			switch name {
			case "B":
				handledByB[id] = append(handledByB[id], fb)
				if fb == gexchange.FeedbackAccepted {
					acceptedByB[id] = true
				}
				s.Logf("B handler msg%d -> %d", id, fb)
			case "C":
				arrivedAtC[id] = true
				s.Logf("C received msg%d", id)
				if !acceptedByB[id] {
					s.Violate("C20/daisy/relayed-without-accept", "C received msg%d although B's handler verdicts for it were %v (B handler installed at the time: see trace)", id, handledByB[id])
				}
			}
		}
		mk := func(name string, park bool) *dzHandler {
			return &dzHandler{s: s, name: name, park: park, seen: seen, verdict: func(id int) gexchange.Feedback {
				if name == "B" {
					return verdicts[id]
				}
				return gexchange.FeedbackAccepted
			}}
		}
		connA.SetConsensusHandler(ctx, mk("A", false))
		connC.SetConsensusHandler(ctx, mk("C", false))
		if startInstalled {
			connB.SetConsensusHandler(ctx, mk("B", true))
		}
		// the goroutine that changes B's handler over time
		swapDone := make(chan struct{})
		go func() {
			defer close(swapDone)
			sctx := vsimcore.WithIdent(ctx, "swap")
			for _, sw := range swaps {
				s.ParkID("swap", "next", sw.kind)
				s.Logf("B handler %s", sw.kind)
				switch sw.kind {
				case "install", "replace":
					connB.SetConsensusHandler(sctx, mk("B", true))
				case "clear":
					connB.SetConsensusHandler(sctx, nil)
				}
			}
		}()
		// A's publisher
		go func() {
			bc := connA.ConsensusBroadcaster()
			for id := 1; id <= nMsgs; id++ {
				s.ParkID("pubA", "publish", "msg")
				switch id % 3 {
				case 0:
					bc.OutgoingProposedHeaders() <- tmconsensus.ProposedHeader{Header: tmconsensus.Header{Height: uint64(id)}}
				case 1:
					bc.OutgoingPrevoteProofs() <- tmconsensus.PrevoteSparseProof{Height: uint64(id)}
				case 2:
					bc.OutgoingPrecommitProofs() <- tmconsensus.PrecommitSparseProof{Height: uint64(id)}
				}
				s.Logf("A publishes msg%d (B will say %d)", id, verdicts[id])
			}
		}()
		for s.Steps < 3000 && !s.Failed() {
			vsimcore.Wait()
			acts := s.ParkActions(nil)
			if len(acts) == 0 {
				break
			}
			s.Pick(acts)
		}
		info.SimNs = int64(s.SimTime())
		cancel()
		s.Stop()
		<-swapDone
		net.Wait()
	})
	nAcc := 0
	for id := 1; id <= nMsgs; id++ {
		if acceptedByB[id] {
			nAcc++
		}
		sample = append(sample, fmt.Sprintf("msg%d verdicts=%v arrivedAtC=%t", id, handledByB[id], arrivedAtC[id]))
	}
	var sk []string
	for _, sw := range swaps {
		sk = append(sk, sw.kind)
	}
	if len(arrivedAtC) > 0 {
		s.Probe("message_relayed_to_C")
	}
	if len(handledByB) < nMsgs {
		s.Probe("message_arrived_while_B_had_no_handler")
	}
	info.Nontrivial = len(handledByB) > 0 || len(swaps) > 0
	keys := make([]string, 0)
	keys = append(keys, fmt.Sprintf("m%d/acc%d/arr%d/sw%s/start%t", min(nMsgs, 4), min(nAcc, 3), min(len(arrivedAtC), 3), strings.Join(sk, ""), startInstalled))
	sort.Strings(keys)
	info.States = keys
	info.Sample = map[string]any{"harness": "daisy", "messages": sample, "b_handler_changes": sk, "b_starts_with_handler": startInstalled}
	return info
}
