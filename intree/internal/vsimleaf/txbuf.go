//go:build verif

package vsimleaf

import (
	"context"
	"errors"
	"fmt"
	"sort"
	"strings"

	"github.com/anishathalye/porcupine"
	"github.com/gordian-engine/gordian/gdriver/gtxbuf"
	"github.com/gordian-engine/gordian/internal/gchan"
	"github.com/gordian-engine/gordian/internal/vsimcore"
)

// H-TXBUF: the real gtxbuf.Buffer (its kernel goroutine) with 1-4 concurrent clients.
// Every client call is parked at the gchan hook before its request is sent and before its
// response is read, so the kernel sees requests in a seed-chosen order.

func init() { Harnesses["txbuf"] = runTxbuf }

// tbState is the (immutable, comparable) chain state of the generated semantics.
type tbState struct {
	Bal   int
	Nonce int
	Mask  uint64 // ids of applied transactions (an id applies at most once)
}

type tbTx struct {
	ID   int
	Kind int // 0 deposit, 1 spend, 2 sequence (needs Nonce == Arg)
	Arg  int
}

func (t tbTx) String() string {
	return fmt.Sprintf("tx%d(%s %d)", t.ID, [...]string{"dep", "spend", "seq"}[t.Kind], t.Arg)
}

var errTbFatal = errors.New("fatal apply error (injected)")

// tbGarbage is what the apply function returns next to an error: callers must not use it.
var tbGarbage = tbState{Bal: -100000, Nonce: -7}

func tbApply(st tbState, tx tbTx) (tbState, error) {
	if st.Mask&(1<<uint(tx.ID)) != 0 {
		return tbGarbage, gtxbuf.TxInvalidError{Err: fmt.Errorf("tx %d already applied", tx.ID)}
	}
	switch tx.Kind {
	case 0:
		st.Bal += tx.Arg
	case 1:
		if st.Bal < tx.Arg {
			return tbGarbage, gtxbuf.TxInvalidError{Err: fmt.Errorf("insufficient balance")}
		}
		st.Bal -= tx.Arg
	case 2:
		if st.Nonce != tx.Arg {
			return tbGarbage, gtxbuf.TxInvalidError{Err: fmt.Errorf("bad nonce")}
		}
		st.Nonce++
	}
	st.Mask |= 1 << uint(tx.ID)
	return st, nil
}

// sequential reference model -------------------------------------------------

type tbModel struct {
	Base    tbState
	Pending []tbTx
}

func (m tbModel) key() string {
	var b strings.Builder
	fmt.Fprintf(&b, "%d/%d/%x|", m.Base.Bal, m.Base.Nonce, m.Base.Mask)
	for _, t := range m.Pending {
		fmt.Fprintf(&b, "%d,", t.ID)
	}
	return b.String()
}

func (m tbModel) cur() tbState {
	st := m.Base
	for _, t := range m.Pending {
		st, _ = tbApply(st, t)
	}
	return st
}

type tbIn struct {
	Op      string // add | buffered | rebase
	Tx      tbTx
	Base    tbState
	Applied []tbTx
}

type tbOut struct {
	Err  string // "", "invalid", "other:<msg>"
	List []int  // ids (buffered / invalidated)
}

func ids(l []tbTx) []int {
	out := make([]int, len(l))
	for i, t := range l {
		out[i] = t.ID
	}
	return out
}

func eqInts(a, b []int) bool {
	if len(a) != len(b) {
		return false
	}
	for i := range a {
		if a[i] != b[i] {
			return false
		}
	}
	return true
}

func tbStep(m tbModel, in tbIn) (tbModel, tbOut) {
	switch in.Op {
	case "add":
		if _, err := tbApply(m.cur(), in.Tx); err != nil {
			return m, tbOut{Err: "invalid"}
		}
		n := tbModel{Base: m.Base, Pending: append(append([]tbTx(nil), m.Pending...), in.Tx)}
		return n, tbOut{}
	case "buffered":
		return m, tbOut{List: ids(m.Pending)}
	case "rebase":
		rej := map[int]bool{}
		for _, t := range in.Applied {
			rej[t.ID] = true
		}
		n := tbModel{Base: in.Base}
		st := in.Base
		var inval []int
		for _, t := range m.Pending {
			if rej[t.ID] {
				continue
			}
			ns, err := tbApply(st, t)
			if err != nil {
				inval = append(inval, t.ID)
				continue
			}
			st = ns
			n.Pending = append(n.Pending, t)
		}
		return n, tbOut{List: inval}
	}
	panic("bad op")
}

var tbPorcupine = porcupine.Model{
	Init: func() interface{} { return tbModel{} },
	Step: func(state, input, output interface{}) (bool, interface{}) {
		m := state.(tbModel)
		in := input.(tbIn)
		out := output.(tbOut)
		n, want := tbStep(m, in)
		if want.Err != out.Err || !eqInts(want.List, out.List) {
			return false, m
		}
		return true, n
	},
	Equal: func(a, b interface{}) bool { return a.(tbModel).key() == b.(tbModel).key() },
	DescribeOperation: func(input, output interface{}) string {
		return tbDescribe(input.(tbIn), output.(tbOut))
	},
}

func tbDescribe(in tbIn, out tbOut) string {
	switch in.Op {
	case "add":
		return fmt.Sprintf("AddTx(%v) -> err=%q", in.Tx, out.Err)
	case "buffered":
		return fmt.Sprintf("Buffered() -> %v", out.List)
	default:
		return fmt.Sprintf("Rebase(base=%+v, applied=%v) -> invalidated=%v err=%q", in.Base, ids(in.Applied), out.List, out.Err)
	}
}

func runTxbuf(s *vsimcore.Sim, p vsimcore.Params) vsimcore.RunInfo {
	// run configuration (swarm): all drawn from the one choice log
	nClients := 1 + s.Choose("clients", 4)
	opsPer := 2 + s.Choose("ops", 6)
	init := tbState{Bal: s.Choose("bal0", 6), Nonce: s.Choose("nonce0", 2)}
	wAdd := 2 + s.Choose("wadd", 6)
	wBuf := 1 + s.Choose("wbuf", 3)
	wReb := 1 + s.Choose("wreb", 3)
	// a slow application: the buffer's goroutine can be held inside the user's apply function, so that
	// other requests arrive (and wait on its request channels) while an AddTx or a Rebase is half done
	slowApply := s.Pct("slow-apply", 50)
	h := &hist{}
	var info vsimcore.RunInfo
	nextID := 0
	var model0 tbModel
	model0.Base = init

	// with a slow apply function several requests can be waiting when the buffer's goroutine returns to
	// its select: which one it takes is the simulator's choice (seeded select pre-pass), not the runtime's
	s.AttachSelect()
	defer vsimcore.Detach()
	s.Bubble(func() {
		ctx, cancel := context.WithCancel(context.Background())
		gchan.SimYield = func(ctx context.Context, op, label string) {
			if id := vsimcore.Ident(ctx); strings.HasPrefix(id, "cl") {
				s.Park(ctx, "gchan", op)
			}
		}
		defer func() { gchan.SimYield = nil }()

		buf := gtxbuf.New[tbState, tbTx](ctx, quietLog(),
			func(_ context.Context, st tbState, tx tbTx) (tbState, error) {
				if slowApply {
					s.ParkID("txbuf", "apply", "tx")
					s.Probe("request_processing_held_in_apply")
				}
				return tbApply(st, tx)
			},
			func(_ context.Context, reject []tbTx) func(tbTx) bool {
				m := map[int]bool{}
				for _, t := range reject {
					m[t.ID] = true
				}
				return func(t tbTx) bool { return m[t.ID] }
			},
		)
		buf.Initialize(ctx, init)

		// Operations are generated up front per client (from the choice log), so that the
		// workload does not depend on the schedule; rebase arguments refer to tx ids, not to results.
		type plan struct{ ins []tbIn }
		plans := make([]plan, nClients)
		var allTx []tbTx
		for c := 0; c < nClients; c++ {
			for k := 0; k < opsPer; k++ {
				switch s.ChooseW("op", []int{wAdd, wBuf, wReb}) {
				case 0:
					if nextID >= 60 {
						plans[c].ins = append(plans[c].ins, tbIn{Op: "buffered"})
						continue
					}
					tx := tbTx{ID: nextID, Kind: s.Choose("kind", 3)}
					nextID++
					switch tx.Kind {
					case 0:
						tx.Arg = 1 + s.Choose("amt", 4)
					case 1:
						tx.Arg = 1 + s.Choose("amt", 6)
					case 2:
						tx.Arg = s.Choose("nonce", 4)
					}
					if s.Pct("dup-id", 8) && len(allTx) > 0 { // a re-submitted transaction
						tx = allTx[s.Choose("dup", len(allTx))]
					}
					allTx = append(allTx, tx)
					plans[c].ins = append(plans[c].ins, tbIn{Op: "add", Tx: tx})
				case 1:
					plans[c].ins = append(plans[c].ins, tbIn{Op: "buffered"})
				case 2:
					in := tbIn{Op: "rebase", Base: tbState{Bal: s.Choose("bal", 8), Nonce: s.Choose("nonce", 4)}}
					for _, t := range allTx {
						if s.Pct("applied", 35) {
							in.Applied = append(in.Applied, t)
							in.Base.Mask |= 1 << uint(t.ID)
						}
					}
					plans[c].ins = append(plans[c].ins, in)
				}
			}
		}

		doneCh := make(chan struct{}, nClients)
		for c := 0; c < nClients; c++ {
			c := c
			cctx := vsimcore.WithIdent(ctx, fmt.Sprintf("cl%d", c))
			go func() {
				defer func() { doneCh <- struct{}{} }()
				for _, in := range plans[c].ins {
					s.Park(cctx, "client", "invoke")
					call := h.invoke()
					var out tbOut
					switch in.Op {
					case "add":
						err := buf.AddTx(cctx, in.Tx)
						out = tbOut{Err: tbErr(err)}
					case "buffered":
						out = tbOut{List: ids(buf.Buffered(cctx, nil))}
					case "rebase":
						inv, err := buf.Rebase(cctx, in.Base, append([]tbTx(nil), in.Applied...))
						out = tbOut{List: ids(inv), Err: tbErr(err)}
					}
					h.ret(c, call, in, out)
				}
			}()
		}

		finished := 0
		for s.Steps < 5000 {
			vsimcore.Wait()
			for {
				select {
				case <-doneCh:
					finished++
					continue
				default:
				}
				break
			}
			acts := s.ParkActions(nil)
			if len(acts) == 0 {
				break
			}
			s.Pick(acts)
		}
		if finished != nClients {
			s.Violate("C19/stuck", "clients finished %d of %d with nothing left to schedule; parked=%v", finished, nClients, s.Parked())
		}
		// final sequential read: the pending list must apply in order on the model's base
		final := ids(buf.Buffered(ctx, nil))
		s.Logf("final buffered %v", final)
		info.SimNs = int64(s.SimTime())
		cancel()
		s.Stop()
		buf.Wait()
	})

	ops := h.ops
	// the model starts from the initial state
	model := tbPorcupine
	model.Init = func() interface{} { return model0 }
	info.Inconclusive = checkLinearizable(s, "C19", model, ops, func(op porcupine.Operation) string {
		return tbDescribe(op.Input.(tbIn), op.Output.(tbOut))
	})
	nAdd, nReb, nInvalid, nInval := 0, 0, 0, 0
	for _, op := range ops {
		in, out := op.Input.(tbIn), op.Output.(tbOut)
		switch in.Op {
		case "add":
			nAdd++
			if out.Err != "" {
				nInvalid++
			}
		case "rebase":
			nReb++
			nInval += len(out.List)
		}
	}
	if nInvalid > 0 {
		s.Probe("addtx_rejected")
	}
	if nInval > 0 {
		s.Probe("rebase_invalidated_some")
	}
	info.Nontrivial = nAdd >= 2 && nReb >= 1
	var st []string
	st = append(st, fmt.Sprintf("c%d/add%d/reb%d/rej%t/inv%t", nClients, min(nAdd, 4), min(nReb, 3), nInvalid > 0, nInval > 0))
	info.States = st
	var sample []string
	sorted := append([]porcupine.Operation(nil), ops...)
	sort.Slice(sorted, func(a, b int) bool { return sorted[a].Call < sorted[b].Call })
	for _, op := range sorted {
		sample = append(sample, fmt.Sprintf("[%d,%d] c%d %s", op.Call, op.Return, op.ClientId, tbDescribe(op.Input.(tbIn), op.Output.(tbOut))))
	}
	info.Sample = map[string]any{"harness": "txbuf", "clients": nClients, "initial": fmt.Sprintf("%+v", init), "history": sample}
	return info
}

func tbErr(err error) string {
	if err == nil {
		return ""
	}
	if errors.As(err, new(gtxbuf.TxInvalidError)) {
		return "invalid"
	}
	return "other:" + err.Error()
}
