//go:build verif

package vsimleaf

import (
	"bytes"
	"fmt"
	"sort"

	"github.com/gordian-engine/gordian/gcrypto"
	"github.com/gordian-engine/gordian/internal/vsimcore"
	"github.com/gordian-engine/gordian/tm/tmconsensus"
	"github.com/gordian-engine/gordian/tm/tmconsensus/tmconsensustest"
)

// Tamper and replay faults of the simulated wire, stand-alone part (C15):
// a man in the middle replaces a header in flight by a mutant differing in exactly one
// hash-covered field, or re-files a captured signature under another vote target.
// Oracle at injection: the block hash / the signed bytes differ.

func init() { Harnesses["hashsign"] = runHashSign }

func hsCloneHeader(h tmconsensus.Header) tmconsensus.Header {
	c := h
	c.Hash = bytes.Clone(h.Hash)
	c.PrevBlockHash = bytes.Clone(h.PrevBlockHash)
	c.DataID = bytes.Clone(h.DataID)
	c.PrevAppStateHash = bytes.Clone(h.PrevAppStateHash)
	c.Annotations = tmconsensus.Annotations{User: bytes.Clone(h.Annotations.User), Driver: bytes.Clone(h.Annotations.Driver)}
	c.ValidatorSet.PubKeyHash = bytes.Clone(h.ValidatorSet.PubKeyHash)
	c.ValidatorSet.VotePowerHash = bytes.Clone(h.ValidatorSet.VotePowerHash)
	c.NextValidatorSet.PubKeyHash = bytes.Clone(h.NextValidatorSet.PubKeyHash)
	c.NextValidatorSet.VotePowerHash = bytes.Clone(h.NextValidatorSet.VotePowerHash)
	if h.PrevCommitProof.Proofs != nil {
		c.PrevCommitProof.Proofs = map[string][]gcrypto.SparseSignature{}
		for k, v := range h.PrevCommitProof.Proofs {
			var l []gcrypto.SparseSignature
			for _, sg := range v {
				l = append(l, gcrypto.SparseSignature{KeyID: bytes.Clone(sg.KeyID), Sig: bytes.Clone(sg.Sig)})
			}
			c.PrevCommitProof.Proofs[k] = l
		}
	}
	return c
}

func hsBytes(s *vsimcore.Sim, n int) []byte {
	b := make([]byte, n)
	for i := range b {
		b[i] = byte(s.Choose("b", 256))
	}
	return b
}

// hsChange returns a byte string whose content differs from b.
func hsChange(s *vsimcore.Sim, b []byte) []byte {
	switch s.Choose("change", 4) {
	case 0:
		if len(b) > 0 {
			c := bytes.Clone(b)
			c[s.Choose("pos", len(c))] ^= 1 << uint(s.Choose("bit", 8))
			return c
		}
	case 1:
		if len(b) > 1 {
			return bytes.Clone(b[:len(b)-1])
		}
	case 2:
		return append(bytes.Clone(b), byte(s.Choose("extra", 256)))
	}
	c := hsBytes(s, 1+s.Choose("len", 10))
	if bytes.Equal(c, b) {
		c = append(c, 1)
	}
	return c
}

func runHashSign(s *vsimcore.Sim, p vsimcore.Params) vsimcore.RunInfo {
	hs := tmconsensustest.SimpleHashScheme{}
	ss := tmconsensustest.SimpleSignatureScheme{}
	var info vsimcore.RunInfo
	var sample []string

	// a header as an honest proposer would send it
	h := tmconsensus.Header{
		PrevBlockHash:    hsBytes(s, 32),
		Height:           uint64(1 + s.Choose("height", 1000)),
		DataID:           hsBytes(s, 1+s.Choose("dlen", 16)),
		PrevAppStateHash: hsBytes(s, 8),
		ValidatorSet:     tmconsensus.ValidatorSet{PubKeyHash: hsBytes(s, 32), VotePowerHash: hsBytes(s, 32)},
		NextValidatorSet: tmconsensus.ValidatorSet{PubKeyHash: hsBytes(s, 32), VotePowerHash: hsBytes(s, 32)},
	}
	if s.Pct("user-annotation", 50) {
		h.Annotations.User = hsBytes(s, s.Choose("ualen", 6))
	}
	if s.Pct("driver-annotation", 50) {
		h.Annotations.Driver = hsBytes(s, s.Choose("dalen", 6))
	}
	h.PrevCommitProof = tmconsensus.CommitProof{Round: uint32(s.Choose("pcround", 4)), PubKeyHash: string(hsBytes(s, 8)), Proofs: map[string][]gcrypto.SparseSignature{}}
	nEntries := s.Choose("entries", 4)
	for i := 0; i < nEntries; i++ {
		bh := ""
		if i > 0 || s.Pct("first-nonnil", 70) {
			bh = string(hsBytes(s, 4+s.Choose("bhlen", 8)))
		}
		nSig := 1 + s.Choose("nsig", 3)
		for j := 0; j < nSig; j++ {
			h.PrevCommitProof.Proofs[bh] = append(h.PrevCommitProof.Proofs[bh], gcrypto.SparseSignature{KeyID: []byte{0, byte(j + 4*i)}, Sig: hsBytes(s, 16)})
		}
	}
	var hash0 []byte
	if !guard(s, "C15/block", func() string { return fmt.Sprintf("%+v", h) }, func() {
		var err error
		hash0, err = hs.Block(h)
		if err != nil {
			s.Violate("C15/block-error", "%v", err)
		}
	}) || s.Failed() {
		return info
	}
	blockOf := func(x tmconsensus.Header) []byte {
		var out []byte
		guard(s, "C15/block", func() string { return fmt.Sprintf("%+v", x) }, func() {
			var err error
			out, err = hs.Block(x)
			if err != nil {
				s.Violate("C15/block-error", "%v", err)
			}
		})
		return out
	}

	// hash-neutral variants
	{
		m := hsCloneHeader(h)
		m.Hash = hsBytes(s, 32)
		if !bytes.Equal(blockOf(m), hash0) {
			s.Violate("C15/hash-depends-on-stored-hash", "block hash changed when only the stored Hash field changed")
		}
		m = hsCloneHeader(h)
		// rebuild the proof map in reverse key order (map iteration / insertion order must not matter)
		keys := make([]string, 0, len(m.PrevCommitProof.Proofs))
		for k := range m.PrevCommitProof.Proofs {
			keys = append(keys, k)
		}
		sort.Sort(sort.Reverse(sort.StringSlice(keys)))
		nm := map[string][]gcrypto.SparseSignature{}
		for _, k := range keys {
			nm[k] = m.PrevCommitProof.Proofs[k]
		}
		m.PrevCommitProof.Proofs = nm
		for i := 0; i < 3; i++ {
			if !bytes.Equal(blockOf(m), hash0) {
				s.Violate("C15/hash-not-deterministic", "block hash differs between evaluations / map orders of an identical header")
			}
		}
	}

	// tamper faults: exactly one hash-covered field differs
	entryKeys := make([]string, 0, len(h.PrevCommitProof.Proofs))
	for k := range h.PrevCommitProof.Proofs {
		entryKeys = append(entryKeys, k)
	}
	sort.Strings(entryKeys)
	nTamper := 6 + s.Choose("tampers", 10)
	fields := []string{"PrevBlockHash", "Height", "PrevCommitProof.Round", "PrevCommitProof.PubKeyHash", "PrevCommitProof.add-entry", "PrevCommitProof.remove-entry",
		"PrevCommitProof.add-signature", "PrevCommitProof.remove-signature", "PrevCommitProof.signature-keyid", "PrevCommitProof.signature-bytes", "PrevCommitProof.move-signature",
		"ValidatorSet.PubKeyHash", "ValidatorSet.VotePowerHash", "NextValidatorSet.PubKeyHash", "NextValidatorSet.VotePowerHash", "DataID", "PrevAppStateHash",
		"Annotations.User", "Annotations.Driver", "Annotations.swap"}
	for i := 0; i < nTamper && !s.Failed(); i++ {
		f := fields[s.Choose("field", len(fields))]
		m := hsCloneHeader(h)
		applied := true
		pickEntry := func() (string, bool) {
			if len(entryKeys) == 0 {
				return "", false
			}
			return entryKeys[s.Choose("entry", len(entryKeys))], true
		}
		switch f {
		case "PrevBlockHash":
			m.PrevBlockHash = hsChange(s, m.PrevBlockHash)
		case "Height":
			m.Height += uint64(1 + s.Choose("dh", 3))
		case "PrevCommitProof.Round":
			m.PrevCommitProof.Round += uint32(1 + s.Choose("dr", 3))
		case "PrevCommitProof.PubKeyHash":
			m.PrevCommitProof.PubKeyHash = string(hsChange(s, []byte(m.PrevCommitProof.PubKeyHash)))
		case "PrevCommitProof.add-entry":
			nk := string(hsBytes(s, 5))
			if _, ok := m.PrevCommitProof.Proofs[nk]; ok {
				applied = false
			} else {
				m.PrevCommitProof.Proofs[nk] = []gcrypto.SparseSignature{{KeyID: []byte{0, 99}, Sig: hsBytes(s, 16)}}
			}
		case "PrevCommitProof.remove-entry":
			if k, ok := pickEntry(); ok {
				delete(m.PrevCommitProof.Proofs, k)
			} else {
				applied = false
			}
		case "PrevCommitProof.add-signature":
			if k, ok := pickEntry(); ok {
				m.PrevCommitProof.Proofs[k] = append(m.PrevCommitProof.Proofs[k], gcrypto.SparseSignature{KeyID: []byte{0, 98}, Sig: hsBytes(s, 16)})
			} else {
				applied = false
			}
		case "PrevCommitProof.remove-signature":
			if k, ok := pickEntry(); ok && len(m.PrevCommitProof.Proofs[k]) > 0 {
				l := m.PrevCommitProof.Proofs[k]
				j := s.Choose("sigidx", len(l))
				m.PrevCommitProof.Proofs[k] = append(l[:j:j], l[j+1:]...)
			} else {
				applied = false
			}
		case "PrevCommitProof.signature-keyid":
			if k, ok := pickEntry(); ok && len(m.PrevCommitProof.Proofs[k]) > 0 {
				l := m.PrevCommitProof.Proofs[k]
				j := s.Choose("sigidx", len(l))
				l[j].KeyID = hsChange(s, l[j].KeyID)
			} else {
				applied = false
			}
		case "PrevCommitProof.signature-bytes":
			if k, ok := pickEntry(); ok && len(m.PrevCommitProof.Proofs[k]) > 0 {
				l := m.PrevCommitProof.Proofs[k]
				j := s.Choose("sigidx", len(l))
				l[j].Sig = hsChange(s, l[j].Sig)
			} else {
				applied = false
			}
		case "PrevCommitProof.move-signature": // same signatures, filed under another block
			if len(entryKeys) >= 2 {
				a := entryKeys[s.Choose("entryA", len(entryKeys))]
				b := entryKeys[(indexOf(entryKeys, a)+1+s.Choose("entryB", len(entryKeys)-1))%len(entryKeys)]
				la := m.PrevCommitProof.Proofs[a]
				if len(la) > 1 {
					m.PrevCommitProof.Proofs[b] = append(m.PrevCommitProof.Proofs[b], la[len(la)-1])
					m.PrevCommitProof.Proofs[a] = la[:len(la)-1]
				} else {
					applied = false
				}
			} else {
				applied = false
			}
		case "ValidatorSet.PubKeyHash":
			m.ValidatorSet.PubKeyHash = hsChange(s, m.ValidatorSet.PubKeyHash)
		case "ValidatorSet.VotePowerHash":
			m.ValidatorSet.VotePowerHash = hsChange(s, m.ValidatorSet.VotePowerHash)
		case "NextValidatorSet.PubKeyHash":
			m.NextValidatorSet.PubKeyHash = hsChange(s, m.NextValidatorSet.PubKeyHash)
		case "NextValidatorSet.VotePowerHash":
			m.NextValidatorSet.VotePowerHash = hsChange(s, m.NextValidatorSet.VotePowerHash)
		case "DataID":
			m.DataID = hsChange(s, m.DataID)
		case "PrevAppStateHash":
			m.PrevAppStateHash = hsChange(s, m.PrevAppStateHash)
		case "Annotations.User":
			if m.Annotations.User == nil {
				m.Annotations.User = hsBytes(s, s.Choose("ualen", 4))
			} else if s.Pct("drop-annotation", 30) {
				m.Annotations.User = nil
			} else {
				m.Annotations.User = hsChange(s, m.Annotations.User)
			}
		case "Annotations.Driver":
			if m.Annotations.Driver == nil {
				m.Annotations.Driver = hsBytes(s, s.Choose("dalen", 4))
			} else if s.Pct("drop-annotation", 30) {
				m.Annotations.Driver = nil
			} else {
				m.Annotations.Driver = hsChange(s, m.Annotations.Driver)
			}
		case "Annotations.swap": // user and driver annotation exchanged
			if bytes.Equal(m.Annotations.User, m.Annotations.Driver) && (m.Annotations.User == nil) == (m.Annotations.Driver == nil) {
				applied = false
			} else {
				m.Annotations.User, m.Annotations.Driver = m.Annotations.Driver, m.Annotations.User
			}
		}
		if !applied {
			continue
		}
		s.Fault("tamper:" + f)
		s.Logf("tamper %s", f)
		if len(sample) < 8 {
			sample = append(sample, "tamper "+f)
		}
		if bytes.Equal(blockOf(m), hash0) {
			s.Violate("C15/hash-ignores/"+f, "a header differing from the original only in %s has the same block hash %x\noriginal: %+v\nmutant:   %+v", f, hash0, h, m)
		}
	}

	// replay faults: a captured signature is re-filed under another target
	type target struct {
		kind string
		vt   tmconsensus.VoteTarget
		ph   tmconsensus.Header
		ann  tmconsensus.Annotations
	}
	baseHash := string(hsBytes(s, 6))
	hashes := []string{"", baseHash, baseHash + "\x00", baseHash[:len(baseHash)-1], string(hsBytes(s, 6)), "nil", "\n"}
	var targets []target
	seen := map[string]bool{}
	nT := 6 + s.Choose("targets", 10)
	for i := 0; i < nT; i++ {
		t := target{}
		switch s.Choose("tkind", 3) {
		case 0:
			t.kind = "prevote"
		case 1:
			t.kind = "precommit"
		case 2:
			t.kind = "proposal"
		}
		t.vt = tmconsensus.VoteTarget{Height: uint64(1 + s.Choose("th", 3)), Round: uint32(s.Choose("tr", 3)), BlockHash: hashes[s.Choose("thash", len(hashes))]}
		if s.Pct("digit-boundary", 20) { // 1/12 vs 11/2 style concatenation ambiguity
			t.vt.Height, t.vt.Round = []uint64{1, 11, 1, 12}[i%4], []uint32{12, 2, 1, 0}[i%4]
		}
		id := fmt.Sprintf("%s/%d/%d/%x", t.kind, t.vt.Height, t.vt.Round, t.vt.BlockHash)
		if t.kind == "proposal" {
			t.ph = tmconsensus.Header{Height: t.vt.Height, PrevBlockHash: []byte(t.vt.BlockHash), PrevAppStateHash: hsBytes(s, 2), DataID: hsBytes(s, 2)}
			if s.Pct("prop-annotation", 40) {
				t.ann.User = hsBytes(s, s.Choose("alen", 3))
			}
			if s.Pct("prop-annotation", 40) {
				t.ann.Driver = hsBytes(s, s.Choose("alen", 3))
			}
			id = fmt.Sprintf("proposal/%d/%d/%x/%x/%x/%v%x/%v%x", t.ph.Height, t.vt.Round, t.ph.PrevBlockHash, t.ph.PrevAppStateHash, t.ph.DataID, t.ann.User == nil, t.ann.User, t.ann.Driver == nil, t.ann.Driver)
		}
		if seen[id] {
			continue
		}
		seen[id] = true
		targets = append(targets, t)
	}
	signBytes := func(t target) []byte {
		var b []byte
		var err error
		guard(s, "C15/signbytes", func() string { return fmt.Sprintf("%+v", t) }, func() {
			switch t.kind {
			case "prevote":
				b, err = tmconsensus.PrevoteSignBytes(t.vt, ss)
			case "precommit":
				b, err = tmconsensus.PrecommitSignBytes(t.vt, ss)
			default:
				b, err = tmconsensus.ProposalSignBytes(t.ph, t.vt.Round, t.ann, ss)
			}
			if err != nil {
				s.Violate("C15/signbytes-error", "%v", err)
			}
		})
		return b
	}
	got := make([][]byte, len(targets))
	snap := make([][]byte, len(targets))
	for i, t := range targets {
		got[i] = signBytes(t)
		snap[i] = bytes.Clone(got[i])
	}
	for i := range targets {
		// the bytes handed out earlier must not change when later sign bytes are produced
		// (a signer may hold them while other goroutines ask for theirs)
		if !bytes.Equal(got[i], snap[i]) {
			s.Violate("C15/signbytes-unstable/"+targets[i].kind, "sign bytes returned for %+v changed after later calls: now %q, was %q", targets[i], got[i], snap[i])
			break
		}
		if again := signBytes(targets[i]); !bytes.Equal(again, snap[i]) {
			s.Violate("C15/signbytes-not-deterministic/"+targets[i].kind, "sign bytes for %+v differ between calls", targets[i])
			break
		}
		for j := i + 1; j < len(targets); j++ {
			if bytes.Equal(snap[i], snap[j]) {
				s.Violate("C15/signbytes-collision/"+targets[i].kind+"-"+targets[j].kind, "distinct targets %+v and %+v have equal sign bytes %q", targets[i], targets[j], snap[i])
			}
		}
	}
	s.Fault("replay:targets-compared")
	s.Logf("targets %d", len(targets))
	info.Nontrivial = nEntries >= 0 && len(targets) >= 2
	info.States = []string{fmt.Sprintf("e%d/t%d", nEntries, min(len(targets), 8))}
	info.Sample = map[string]any{"harness": "hashsign", "commit_proof_entries": nEntries, "tampers": sample, "vote_targets_compared": len(targets)}
	return info
}

func indexOf(l []string, x string) int {
	for i, v := range l {
		if v == x {
			return i
		}
	}
	return 0
}
