//go:build verif

package vsimleaf

import (
	"bytes"
	"encoding/json"
	"fmt"
	"sort"
	"strings"

	"github.com/gordian-engine/gordian/gcrypto"
	"github.com/gordian-engine/gordian/internal/vsimcore"
	"github.com/gordian-engine/gordian/tm/tmcodec"
	"github.com/gordian-engine/gordian/tm/tmcodec/tmjson"
	"github.com/gordian-engine/gordian/tm/tmconsensus"
)

// H-NET wire, stand-alone part: generated frames of every message kind cross a simulated wire
// (tmjson). Clean deliveries must decode to an equal value of the same variant; damaged
// deliveries (bit flips, truncation, insertion, splice, structural JSON damage addressed by
// canonical path) must yield an error or a value, never a panic.

func init() { Harnesses["codec"] = runCodec }

// key8 is a second registered key type whose registry name uses all 8 prefix bytes
// (the registry allows names of up to 8 bytes; the shipped names are shorter).
type key8 struct{ k gcrypto.Ed25519PubKey }

func (k key8) PubKeyBytes() []byte         { return k.k.PubKeyBytes() }
func (k key8) Verify(msg, sig []byte) bool { return k.k.Verify(msg, sig) }
func (k key8) TypeName() string            { return "vsimkey8" }
func (k key8) Equal(o gcrypto.PubKey) bool {
	ok, is := o.(key8)
	return is && k.k.Equal(ok.k)
}

func cdKey(s *vsimcore.Sim, i int) gcrypto.PubKey {
	k := stPub(i % 3)
	if s.Pct("key8", 25) {
		return key8{k.(gcrypto.Ed25519PubKey)}
	}
	return k
}

func cdBytes(s *vsimcore.Sim, tag string) []byte {
	switch s.ChooseW("bytes:"+tag, []int{1, 1, 5}) {
	case 0:
		return nil
	case 1:
		return []byte{}
	}
	n := 1 + s.Choose("len", 12)
	b := make([]byte, n)
	for i := range b {
		b[i] = byte(s.Choose("b", 256))
	}
	return b
}

func cdSigs(s *vsimcore.Sim) []gcrypto.SparseSignature {
	n := s.Choose("nsigs", 4)
	out := make([]gcrypto.SparseSignature, n)
	for i := range out {
		out[i] = gcrypto.SparseSignature{KeyID: []byte{0, byte(s.Choose("kid", 8))}, Sig: cdBytesNZ(s, 8+s.Choose("siglen", 60))}
	}
	if n == 0 && s.Pct("nil-sigs", 50) {
		return nil
	}
	return out
}

func cdBytesNZ(s *vsimcore.Sim, n int) []byte {
	b := make([]byte, n)
	for i := range b {
		b[i] = byte(s.Choose("b", 256))
	}
	return b
}

func cdProofMap(s *vsimcore.Sim) map[string][]gcrypto.SparseSignature {
	n := s.Choose("nproofs", 4)
	m := map[string][]gcrypto.SparseSignature{}
	for i := 0; i < n; i++ {
		h := ""
		if i > 0 || s.Pct("nonnil-first", 60) {
			h = string(cdBytesNZ(s, 1+s.Choose("hashlen", 8)))
		}
		m[h] = cdSigs(s)
	}
	return m
}

func cdValSet(s *vsimcore.Sim) tmconsensus.ValidatorSet {
	n := s.Choose("nvals", 4)
	vs := tmconsensus.ValidatorSet{PubKeyHash: cdBytes(s, "pkh"), VotePowerHash: cdBytes(s, "vph")}
	vs.Validators = make([]tmconsensus.Validator, n)
	vs.PubKeys = make([]gcrypto.PubKey, n)
	for i := range vs.Validators {
		k := cdKey(s, i+s.Choose("keyrot", 3))
		pw := uint64(1 + s.Choose("power", 1000))
		if s.Pct("bigpower", 10) {
			pw = 1<<63 + uint64(s.Choose("power", 1000))
		}
		vs.Validators[i] = tmconsensus.Validator{PubKey: k, Power: pw}
		vs.PubKeys[i] = k
	}
	return vs
}

func cdHeader(s *vsimcore.Sim) tmconsensus.Header {
	h := tmconsensus.Header{
		Hash:             cdBytes(s, "hash"),
		PrevBlockHash:    cdBytes(s, "prev"),
		Height:           uint64(s.Choose("height", 5)),
		ValidatorSet:     cdValSet(s),
		NextValidatorSet: cdValSet(s),
		DataID:           cdBytes(s, "data"),
		PrevAppStateHash: cdBytes(s, "app"),
		Annotations:      tmconsensus.Annotations{User: cdBytes(s, "ua"), Driver: cdBytes(s, "da")},
	}
	if s.Pct("big-height", 10) {
		h.Height = 1<<63 + 12345
	}
	if s.Pct("same-keys-next", 30) { // next set = same keys, different powers
		h.NextValidatorSet = tmconsensus.ValidatorSet{PubKeyHash: h.ValidatorSet.PubKeyHash, VotePowerHash: cdBytes(s, "vph2")}
		for _, v := range h.ValidatorSet.Validators {
			nv := tmconsensus.Validator{PubKey: v.PubKey, Power: v.Power + uint64(1+s.Choose("dpow", 5))}
			h.NextValidatorSet.Validators = append(h.NextValidatorSet.Validators, nv)
			h.NextValidatorSet.PubKeys = append(h.NextValidatorSet.PubKeys, nv.PubKey)
		}
		if h.NextValidatorSet.Validators == nil {
			h.NextValidatorSet.Validators = []tmconsensus.Validator{}
			h.NextValidatorSet.PubKeys = []gcrypto.PubKey{}
		}
	}
	if s.Pct("has-prev-commit", 75) {
		h.PrevCommitProof = tmconsensus.CommitProof{Round: uint32(s.Choose("pcround", 4)), PubKeyHash: string(cdBytesNZ(s, 1+s.Choose("pkhlen", 6))), Proofs: cdProofMap(s)}
	}
	return h
}

func eqB(a, b []byte) bool { return bytes.Equal(a, b) }

func eqSigs(a, b []gcrypto.SparseSignature) bool {
	if len(a) != len(b) {
		return false
	}
	for i := range a {
		if !eqB(a[i].KeyID, b[i].KeyID) || !eqB(a[i].Sig, b[i].Sig) {
			return false
		}
	}
	return true
}

func eqProofMap(a, b map[string][]gcrypto.SparseSignature) bool {
	if len(a) != len(b) {
		return false
	}
	for k, v := range a {
		w, ok := b[k]
		if !ok || !eqSigs(v, w) {
			return false
		}
	}
	return true
}

func eqValSet(a, b tmconsensus.ValidatorSet) string {
	if !eqB(a.PubKeyHash, b.PubKeyHash) {
		return "PubKeyHash"
	}
	if !eqB(a.VotePowerHash, b.VotePowerHash) {
		return "VotePowerHash"
	}
	if len(a.Validators) != len(b.Validators) {
		return "Validators(len)"
	}
	for i := range a.Validators {
		if !a.Validators[i].PubKey.Equal(b.Validators[i].PubKey) {
			return fmt.Sprintf("Validators[%d].PubKey", i)
		}
		if a.Validators[i].Power != b.Validators[i].Power {
			return fmt.Sprintf("Validators[%d].Power", i)
		}
	}
	if len(a.PubKeys) != len(b.PubKeys) {
		return "PubKeys(len)"
	}
	for i := range a.PubKeys {
		if !a.PubKeys[i].Equal(b.PubKeys[i]) {
			return fmt.Sprintf("PubKeys[%d]", i)
		}
	}
	return ""
}

// diffHeader names the first consensus-relevant field that differs ("" if none).
func diffHeader(a, b tmconsensus.Header) string {
	switch {
	case !eqB(a.Hash, b.Hash):
		return "Hash"
	case !eqB(a.PrevBlockHash, b.PrevBlockHash):
		return "PrevBlockHash"
	case a.Height != b.Height:
		return "Height"
	case a.PrevCommitProof.Round != b.PrevCommitProof.Round:
		return "PrevCommitProof.Round"
	case a.PrevCommitProof.PubKeyHash != b.PrevCommitProof.PubKeyHash:
		return "PrevCommitProof.PubKeyHash"
	case !eqProofMap(a.PrevCommitProof.Proofs, b.PrevCommitProof.Proofs):
		return "PrevCommitProof.Proofs"
	case !eqB(a.DataID, b.DataID):
		return "DataID"
	case !eqB(a.PrevAppStateHash, b.PrevAppStateHash):
		return "PrevAppStateHash"
	case !eqB(a.Annotations.User, b.Annotations.User):
		return "Annotations.User"
	case !eqB(a.Annotations.Driver, b.Annotations.Driver):
		return "Annotations.Driver"
	}
	if d := eqValSet(a.ValidatorSet, b.ValidatorSet); d != "" {
		return "ValidatorSet." + d
	}
	if d := eqValSet(a.NextValidatorSet, b.NextValidatorSet); d != "" {
		return "NextValidatorSet." + d
	}
	return ""
}

func diffPH(a, b tmconsensus.ProposedHeader) string {
	if d := diffHeader(a.Header, b.Header); d != "" {
		return "Header." + d
	}
	switch {
	case a.Round != b.Round:
		return "Round"
	case (a.ProposerPubKey == nil) != (b.ProposerPubKey == nil) || (a.ProposerPubKey != nil && !a.ProposerPubKey.Equal(b.ProposerPubKey)):
		return "ProposerPubKey"
	case !eqB(a.Signature, b.Signature):
		return "Signature"
	case !eqB(a.Annotations.User, b.Annotations.User):
		return "Annotations.User"
	case !eqB(a.Annotations.Driver, b.Annotations.Driver):
		return "Annotations.Driver"
	}
	return ""
}

type cdFrame struct {
	kind string
	data []byte
}

func runCodec(s *vsimcore.Sim, p vsimcore.Params) vsimcore.RunInfo {
	reg := new(gcrypto.Registry)
	gcrypto.RegisterEd25519(reg)
	reg.Register("vsimkey8", key8{}, func(b []byte) (gcrypto.PubKey, error) {
		k, err := gcrypto.NewEd25519PubKey(b)
		if err != nil {
			return nil, err
		}
		return key8{k.(gcrypto.Ed25519PubKey)}, nil
	})
	codec := tmjson.MarshalCodec{CryptoRegistry: reg}
	var info vsimcore.RunInfo
	var frames []cdFrame
	var sample []string
	nMsgs := 2 + s.Choose("msgs", 5)
	fail := func(kind, field string, orig any) {
		s.Violate("C14/roundtrip/"+kind+"/"+field, "decoding the encoder's output changed field %s of a %s: %+v", field, kind, orig)
	}
	for i := 0; i < nMsgs && !s.Failed(); i++ {
		kind := []string{"header", "proposed", "committed", "prevote", "precommit"}[s.Choose("kind", 5)]
		viaMsg := s.Pct("as-consensus-message", 50)
		desc := kind
		guard(s, "C14/clean/"+kind, func() string { return desc }, func() {
			switch kind {
			case "header":
				h := cdHeader(s)
				desc = fmt.Sprintf("header %+v", h)
				b, err := codec.MarshalHeader(h)
				if err != nil {
					s.Violate("C14/marshal-error/header", "%v", err)
					return
				}
				frames = append(frames, cdFrame{"header", b})
				var got tmconsensus.Header
				if err := codec.UnmarshalHeader(b, &got); err != nil {
					s.Violate("C14/unmarshal-own-output/header", "%v for %s", err, b)
					return
				}
				if d := diffHeader(h, got); d != "" {
					fail("header", d, h)
				}
			case "proposed":
				ph := tmconsensus.ProposedHeader{Header: cdHeader(s), Round: uint32(s.Choose("round", 5)), Signature: cdBytes(s, "sig"),
					Annotations: tmconsensus.Annotations{User: cdBytes(s, "pua"), Driver: cdBytes(s, "pda")}}
				if s.Pct("has-proposer", 80) {
					ph.ProposerPubKey = cdKey(s, s.Choose("proposer", 3))
				}
				desc = fmt.Sprintf("proposed header %+v", ph)
				var got tmconsensus.ProposedHeader
				if viaMsg {
					b, err := codec.MarshalConsensusMessage(tmcodec.ConsensusMessage{ProposedHeader: &ph})
					if err != nil {
						s.Violate("C14/marshal-error/message", "%v", err)
						return
					}
					frames = append(frames, cdFrame{"message", b})
					var cm tmcodec.ConsensusMessage
					if err := codec.UnmarshalConsensusMessage(b, &cm); err != nil {
						s.Violate("C14/unmarshal-own-output/message", "%v for %s", err, b)
						return
					}
					if cm.ProposedHeader == nil || cm.PrevoteProof != nil || cm.PrecommitProof != nil {
						s.Violate("C14/roundtrip/message/variant", "proposed header message decoded to another variant: %s", b)
						return
					}
					got = *cm.ProposedHeader
				} else {
					b, err := codec.MarshalProposedHeader(ph)
					if err != nil {
						s.Violate("C14/marshal-error/proposed", "%v", err)
						return
					}
					frames = append(frames, cdFrame{"proposed", b})
					if err := codec.UnmarshalProposedHeader(b, &got); err != nil {
						s.Violate("C14/unmarshal-own-output/proposed", "%v for %s", err, b)
						return
					}
				}
				if d := diffPH(ph, got); d != "" {
					fail("proposed", d, ph)
				}
			case "committed":
				ch := tmconsensus.CommittedHeader{Header: cdHeader(s), Proof: tmconsensus.CommitProof{Round: uint32(s.Choose("round", 5)), PubKeyHash: string(cdBytes(s, "cpkh")), Proofs: cdProofMap(s)}}
				desc = fmt.Sprintf("committed header %+v", ch)
				b, err := codec.MarshalCommittedHeader(ch)
				if err != nil {
					s.Violate("C14/marshal-error/committed", "%v", err)
					return
				}
				frames = append(frames, cdFrame{"committed", b})
				var got tmconsensus.CommittedHeader
				if err := codec.UnmarshalCommittedHeader(b, &got); err != nil {
					s.Violate("C14/unmarshal-own-output/committed", "%v for %s", err, b)
					return
				}
				if d := diffHeader(ch.Header, got.Header); d != "" {
					fail("committed", "Header."+d, ch)
				} else if ch.Proof.Round != got.Proof.Round {
					fail("committed", "Proof.Round", ch)
				} else if ch.Proof.PubKeyHash != got.Proof.PubKeyHash {
					fail("committed", "Proof.PubKeyHash", ch)
				} else if !eqProofMap(ch.Proof.Proofs, got.Proof.Proofs) {
					fail("committed", "Proof.Proofs", ch)
				}
			case "prevote", "precommit":
				height, round := uint64(s.Choose("height", 6)), uint32(s.Choose("round", 5))
				pkh := string(cdBytes(s, "vpkh"))
				proofs := cdProofMap(s)
				desc = fmt.Sprintf("%s proof h=%d r=%d pkh=%x proofs=%v", kind, height, round, pkh, proofs)
				var gh uint64
				var gr uint32
				var gp string
				var gm map[string][]gcrypto.SparseSignature
				var b []byte
				var err error
				if kind == "prevote" {
					v := tmconsensus.PrevoteSparseProof{Height: height, Round: round, PubKeyHash: pkh, Proofs: proofs}
					if viaMsg {
						b, err = codec.MarshalConsensusMessage(tmcodec.ConsensusMessage{PrevoteProof: &v})
					} else {
						b, err = codec.MarshalPrevoteProof(v)
					}
				} else {
					v := tmconsensus.PrecommitSparseProof{Height: height, Round: round, PubKeyHash: pkh, Proofs: proofs}
					if viaMsg {
						b, err = codec.MarshalConsensusMessage(tmcodec.ConsensusMessage{PrecommitProof: &v})
					} else {
						b, err = codec.MarshalPrecommitProof(v)
					}
				}
				if err != nil {
					s.Violate("C14/marshal-error/"+kind, "%v", err)
					return
				}
				if viaMsg {
					frames = append(frames, cdFrame{"message", b})
					var cm tmcodec.ConsensusMessage
					if err := codec.UnmarshalConsensusMessage(b, &cm); err != nil {
						s.Violate("C14/unmarshal-own-output/message", "%v for %s", err, b)
						return
					}
					switch {
					case kind == "prevote" && cm.PrevoteProof != nil && cm.PrecommitProof == nil && cm.ProposedHeader == nil:
						gh, gr, gp, gm = cm.PrevoteProof.Height, cm.PrevoteProof.Round, cm.PrevoteProof.PubKeyHash, cm.PrevoteProof.Proofs
					case kind == "precommit" && cm.PrecommitProof != nil && cm.PrevoteProof == nil && cm.ProposedHeader == nil:
						gh, gr, gp, gm = cm.PrecommitProof.Height, cm.PrecommitProof.Round, cm.PrecommitProof.PubKeyHash, cm.PrecommitProof.Proofs
					default:
						s.Violate("C14/roundtrip/message/variant", "%s message decoded to another variant: %s", kind, b)
						return
					}
				} else if kind == "prevote" {
					frames = append(frames, cdFrame{"prevote", b})
					var got tmconsensus.PrevoteSparseProof
					if err := codec.UnmarshalPrevoteProof(b, &got); err != nil {
						s.Violate("C14/unmarshal-own-output/prevote", "%v for %s", err, b)
						return
					}
					gh, gr, gp, gm = got.Height, got.Round, got.PubKeyHash, got.Proofs
				} else {
					frames = append(frames, cdFrame{"precommit", b})
					var got tmconsensus.PrecommitSparseProof
					if err := codec.UnmarshalPrecommitProof(b, &got); err != nil {
						s.Violate("C14/unmarshal-own-output/precommit", "%v for %s", err, b)
						return
					}
					gh, gr, gp, gm = got.Height, got.Round, got.PubKeyHash, got.Proofs
				}
				switch {
				case gh != height:
					fail(kind, "Height", desc)
				case gr != round:
					fail(kind, "Round", desc)
				case gp != pkh:
					fail(kind, "PubKeyHash", desc)
				case !eqProofMap(gm, proofs):
					fail(kind, "Proofs", desc)
				}
			}
		})
		if len(sample) < 6 {
			d := desc
			if len(d) > 300 {
				d = d[:300] + "..."
			}
			sample = append(sample, d)
		}
		s.Logf("clean %s via-message=%t", kind, viaMsg)
	}

	// damaged deliveries
	nDamage := 10 + s.Choose("damage", 30)
	for i := 0; i < nDamage && !s.Failed() && len(frames) > 0; i++ {
		fr := frames[s.Choose("frame", len(frames))]
		data := append([]byte(nil), fr.data...)
		how := ""
		switch s.ChooseW("wirefault", []int{2, 2, 2, 1, 8}) {
		case 0:
			k := 1 + s.Choose("nflips", 3)
			for j := 0; j < k; j++ {
				data[s.Choose("pos", len(data))] ^= 1 << uint(s.Choose("bit", 8))
			}
			how = "bitflip"
		case 1:
			data = data[:s.Choose("cut", len(data))]
			how = "truncate"
		case 2:
			pos := s.Choose("pos", len(data)+1)
			ins := []byte{byte(s.Choose("ins", 256))}
			data = append(data[:pos], append(ins, data[pos:]...)...)
			how = "insert"
		case 3:
			o := frames[s.Choose("frame2", len(frames))].data
			data = append(data[:s.Choose("cutA", len(data)+1)], o[s.Choose("cutB", len(o)+1):]...)
			how = "splice"
		case 4:
			var v any
			if err := json.Unmarshal(data, &v); err != nil {
				continue
			}
			paths := jsonPaths(v, "")
			if len(paths) == 0 {
				continue
			}
			path := paths[s.Choose("path", len(paths))]
			mut := s.Choose("structfault", 7)
			v = jsonMutate(v, strings.Split(strings.TrimPrefix(path, "/"), "/"), mut, s)
			data, _ = json.Marshal(v)
			how = fmt.Sprintf("json:%s@%s", []string{"drop", "null", "short-base64", "big-number", "empty", "retype", "tiny-base64"}[mut], cdGenericPath(path))
		}
		s.Fault("wire:" + strings.SplitN(how, "@", 2)[0])
		s.Logf("damaged %s %s", fr.kind, how)
		// every Unmarshal method is offered the damaged frame, not only the matching one
		targets := []string{fr.kind}
		if s.Pct("cross-unmarshal", 30) {
			targets = []string{"header", "proposed", "committed", "prevote", "precommit", "message"}
		}
		for _, t := range targets {
			t := t
			guard(s, "C14/damaged", func() string { return fmt.Sprintf("%s frame, fault %s, bytes %q", fr.kind, how, data) }, func() {
				switch t {
				case "header":
					var v tmconsensus.Header
					codec.UnmarshalHeader(data, &v)
				case "proposed":
					var v tmconsensus.ProposedHeader
					codec.UnmarshalProposedHeader(data, &v)
				case "committed":
					var v tmconsensus.CommittedHeader
					codec.UnmarshalCommittedHeader(data, &v)
				case "prevote":
					var v tmconsensus.PrevoteSparseProof
					codec.UnmarshalPrevoteProof(data, &v)
				case "precommit":
					var v tmconsensus.PrecommitSparseProof
					codec.UnmarshalPrecommitProof(data, &v)
				case "message":
					var v tmcodec.ConsensusMessage
					codec.UnmarshalConsensusMessage(data, &v)
				}
			})
		}
	}
	// raw public keys offered to the registry (the codec's only non-JSON decoder)
	for i := 0; i < 4 && !s.Failed(); i++ {
		raw := reg.Marshal(stPub(s.Choose("key", 3)))
		switch s.Choose("keyfault", 4) {
		case 0:
			raw = raw[:s.Choose("cut", len(raw))]
		case 1:
			raw[s.Choose("pos", len(raw))] ^= 0x20
		case 2:
			raw = append(raw, 1, 2, 3)
		case 3:
			raw = nil
		}
		s.Fault("wire:pubkey-bytes")
		guard(s, "C14/damaged", func() string { return fmt.Sprintf("pubkey bytes %x", raw) }, func() { reg.Unmarshal(raw) })
	}

	info.Nontrivial = len(frames) >= 2
	kinds := map[string]bool{}
	for _, f := range frames {
		kinds[f.kind] = true
	}
	ks := make([]string, 0, len(kinds))
	for k := range kinds {
		ks = append(ks, k)
	}
	sort.Strings(ks)
	info.States = []string{strings.Join(ks, "+")}
	info.Sample = map[string]any{"harness": "codec", "clean_messages": sample, "damaged_deliveries": nDamage}
	return info
}

func cdGenericPath(p string) string {
	// strip array indices so that fault counters aggregate
	parts := strings.Split(p, "/")
	for i, x := range parts {
		if len(x) > 0 && x[0] >= '0' && x[0] <= '9' {
			parts[i] = "#"
		}
	}
	return strings.Join(parts, "/")
}

func jsonPaths(v any, prefix string) []string {
	var out []string
	switch x := v.(type) {
	case map[string]any:
		ks := make([]string, 0, len(x))
		for k := range x {
			ks = append(ks, k)
		}
		sort.Strings(ks)
		for _, k := range ks {
			out = append(out, prefix+"/"+k)
			out = append(out, jsonPaths(x[k], prefix+"/"+k)...)
		}
	case []any:
		for i, e := range x {
			out = append(out, fmt.Sprintf("%s/%d", prefix, i))
			out = append(out, jsonPaths(e, fmt.Sprintf("%s/%d", prefix, i))...)
		}
	}
	return out
}

func jsonMutate(v any, path []string, mut int, s *vsimcore.Sim) any {
	if len(path) == 0 {
		return v
	}
	apply := func(old any) (any, bool) { // (new value, delete?)
		switch mut {
		case 0:
			return nil, true
		case 1:
			return nil, false
		case 2:
			if str, ok := old.(string); ok && len(str) > 4 {
				return str[:4], false // base64 of 3 bytes: shorter than any key prefix
			}
			return "AAAA", false
		case 3:
			return json.Number("99999999999999999999999999"), false
		case 4:
			switch old.(type) {
			case []any:
				return []any{}, false
			case map[string]any:
				return map[string]any{}, false
			}
			return "", false
		case 5:
			switch old.(type) {
			case string:
				return 7, false
			case float64:
				return "seven", false
			}
			return []any{1, "x"}, false
		default:
			return "AA==", false // one byte
		}
	}
	switch x := v.(type) {
	case map[string]any:
		k := path[0]
		if len(path) == 1 {
			nv, del := apply(x[k])
			if del {
				delete(x, k)
			} else {
				x[k] = nv
			}
			return x
		}
		x[k] = jsonMutate(x[k], path[1:], mut, s)
		return x
	case []any:
		var i int
		fmt.Sscan(path[0], &i)
		if i < 0 || i >= len(x) {
			return x
		}
		if len(path) == 1 {
			nv, del := apply(x[i])
			if del {
				return append(x[:i], x[i+1:]...)
			}
			x[i] = nv
			return x
		}
		x[i] = jsonMutate(x[i], path[1:], mut, s)
		return x
	}
	return v
}
