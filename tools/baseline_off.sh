#!/bin/bash
# tools/baseline_off.sh [runs]  -- run the repository's own suite with the verif guard off and compare with the
# pinned baseline's stable_pass list (/root/.vp/BASELINE.json). Prints the stable tests that did not pass.
runs=${1:-1}
export GOFLAGS=-mod=mod GOPROXY=off
for i in $(seq 1 $runs); do
  out=/var/tmp/baseline_off.$i.json
  (cd /repo && go test -json -vet=off -count=1 -timeout 25m ./... > $out 2>/dev/null)
  python3 - $out <<'PY'
import json,sys
b=json.load(open('/root/.vp/BASELINE.json')); sp=set(b['stable_pass'])
passed,failed=set(),set()
for l in open(sys.argv[1],errors='replace'):
    l=l.strip()
    if not l.startswith('{'): continue
    try: ev=json.loads(l)
    except Exception: continue
    a,p,t=ev.get('Action'),ev.get('Package',''),ev.get('Test')
    if t is None or a not in('pass','fail'): continue
    (passed if a=='pass' else failed).add(p+'::'+t)
passed-=failed
miss=sorted(sp-passed)
print(f"run: passed={len(passed)} failed={len(failed)} stable_pass={len(sp)} stable_not_passed={len(miss)}")
for m in miss: print('  NOT PASSED:',m, '(failed)' if m in failed else '(not run)')
PY
done
