#!/bin/bash
# tools/confirm_mutant.sh <id> <outdir>   e.g. C16-A /tmp/mut/C16.out/A
# Confirms in a scratch worktree: demo passes without the patch, fails with it; touched packages' existing tests pass with it.
# On success copies patch.diff, demo_test.go, meta.json to /verif/seeded/<id>/ and appends the confirmation to meta.json.
set -u
id=$1; out=$2
export GOFLAGS=-mod=mod GOPROXY=off
wt=/tmp/confirm.$id
git -C /repo worktree remove --force $wt 2>/dev/null
git -C /repo worktree add -q --detach $wt HEAD || exit 3
trap "git -C /repo worktree remove --force $wt" EXIT
pkgdir=$(python3 -c "import json;print(json.load(open('$out/meta.json'))['demo_pkg_dir'])")
demo=$out/demo_test.go
[ -f "$demo" ] || demo=$(ls $out/*_test.go | head -1)
cp $demo $wt/$pkgdir/zz_demo_confirm_test.go
runpat=$(grep -oE "func (Test[A-Za-z0-9_]+)" $demo | awk '{print $2}' | paste -sd'|')
cd $wt
clean=$(GORDIAN_TEST_TIME_FACTOR=5 go test -count=1 -run "^($runpat)\$" ./$pkgdir/ 2>&1 | tail -3)
echo "clean tree demo: $clean"
git apply $out/patch.diff || { echo "PATCH DOES NOT APPLY"; exit 3; }
mut=$(GORDIAN_TEST_TIME_FACTOR=5 go test -count=1 -run "^($runpat)\$" ./$pkgdir/ 2>&1 | tail -3)
echo "mutated tree demo: $mut"
rm $wt/$pkgdir/zz_demo_confirm_test.go
touched=$(git diff --name-only | xargs -n1 dirname | sort -u | sed 's|^|./|')
existfull=$(GORDIAN_TEST_TIME_FACTOR=5 go test -count=1 $touched 2>&1)
exist=$(echo "$existfull" | tail -5)
# tests that flake at the pinned commit already (see DESIGN.md, baseline flakiness) are retried, not trusted on one failure
failed=$(echo "$existfull" | grep -aoE "^--- FAIL: Test[A-Za-z0-9_]+" | awk '{print $3}' | sort -u)
if [ -n "$failed" ]; then
  still=""
  for t in $failed; do
    okonce=0
    for i in 1 2 3 4 5 6; do
      if GORDIAN_TEST_TIME_FACTOR=10 go test -count=1 -run "^$t\$" $touched >/dev/null 2>&1; then okonce=1; break; fi
    done
    [ $okonce = 1 ] || still="$still $t"
  done
  if [ -z "$still" ]; then exist="ok (after retry of load-flaky: $(echo $failed | tr '\n' ' '))"; else exist="FAIL persistent:$still"; fi
fi
echo "existing tests of touched packages ($touched): $exist"
ok=1
echo "$clean" | grep -q "^ok" || ok=0
echo "$mut" | grep -q "FAIL" || ok=0
echo "$exist" | grep -q "FAIL" && ok=0
if [ $ok = 1 ]; then
  mkdir -p /verif/seeded/$id
  cp $out/patch.diff /verif/seeded/$id/patch.diff
  cp $demo /verif/seeded/$id/demo_test.go
  python3 - <<PY
import json
m=json.load(open('$out/meta.json'))
m['confirmed_by_me']={'clean_tree_demo':'''$clean'''.strip(),'mutated_tree_demo':'''$mut'''.strip()[-400:],'existing_tests_touched_packages':'''$exist'''.strip()[-400:], 'how':'tools/confirm_mutant.sh in a scratch git worktree of /repo HEAD'}
json.dump(m,open('/verif/seeded/$id/meta.json','w'),indent=1)
PY
  echo "CONFIRMED $id"
else
  echo "NOT CONFIRMED $id"
fi
