#!/usr/bin/env python3
"""Print the prompt handed to a mutant-writing sub-agent: property text only, plus its scratch worktree."""
import json, sys
pid, wt = sys.argv[1], sys.argv[2]
for l in open('/verif/properties.jsonl'):
    p = json.loads(l)
    if p['id'] == pid:
        break
else:
    raise SystemExit('no such property')
print(f"""You are helping to evaluate a verification setup for the Go project gordian-engine/gordian (a Tendermint-style BFT consensus engine). You have your own scratch git worktree of the project at {wt} (work ONLY inside that directory; do not touch /repo or /verif, do not read /verif).

Here is a semantic property of the project that is supposed to hold:

  Title: {p['title']}
  Statement: {p['statement']}
  Must hold for: {p['quantifier']['text']}
  Code it is anchored in: {', '.join(p['anchors']['files'])}

Your task: write TWO independent, realistic source changes (call them A and B, touching different mechanisms) to the project's non-test Go code, each of which BREAKS this property, while the project still compiles and its existing test suite still passes. Think of the kind of subtle regression a developer could introduce in a refactor or an optimisation: an off-by-one, a dropped check, a lock released too early, a missing clone, a reordered pair of statements, a swapped condition, a stale variable. Prefer changes that need something specific to manifest - a particular interleaving, a fault or crash at a particular point, a multi-step sequence of operations, an unusual input, or two cooperating edits that each look fine alone - NOT ones that ordinary use or the existing tests would expose at once. Never use `git stash` (the stash is shared between worktrees of other people working in parallel; use `git diff > file`, `git checkout -- .`, `git apply file` instead). Do not edit or delete existing tests; do not add build tags; do not touch files ending in _verif.go / _noverif.go or the calls to yield(...) / verifInterpose(...) (those are inert instrumentation hooks).

For each change X in {{A, B}}:
 1. Start from a clean tree (git -C {wt} checkout -- . && git -C {wt} clean -fdq, but keep your OUT directory outside the tree: use {wt}.out/).
 2. Make the change. Save it as {wt}.out/X/patch.diff using `git -C {wt} diff > {wt}.out/X/patch.diff` (patch must contain only the non-test source change).
 3. Write a demonstration: a Go test file (or small program) saved as {wt}.out/X/demo_test.go, plus a note of which package directory it must be copied into, that FAILS with the change applied and PASSES on the clean tree. It may use internals, goroutines, whatever it takes. Verify both outcomes yourself.
 4. Verify that the existing tests of every package you touched, and of the packages that depend on it most directly, still pass with the change applied (at least: go test -count=1 ./<touched pkg>/... and go test -count=1 ./tm/... ./gcrypto/... ./gdriver/... ./internal/... if it is cheap). Existing flaky tests do not count against you, but say so.
 5. Write {wt}.out/X/meta.json with keys: property ("{pid}"), summary (one paragraph: what was changed and why it breaks the property), needs (what specific interleaving / fault / sequence / input is required for it to manifest), demo_pkg_dir (package directory relative to repo root where demo_test.go goes), demo_run (exact go test command), tests_run (what you ran and the outcome).

Environment notes: the machine is offline. Before every go command: export GOFLAGS=-mod=mod GOPROXY=off (leave GOSUMDB unset, leave GOTOOLCHAIN unset). Go 1.25 is what `go` resolves to inside the worktree. The first build of libp2p-dependent packages takes a couple of minutes; later ones are cached. Keep build output inside the Go cache only; do not create other large files. When done, leave the worktree clean (git checkout -- . ; remove your demo test from the tree) - everything that matters must be under {wt}.out/.

Finish with a short report: for A and B, one line each on what you changed, how it manifests, and confirmation that demo fails-with/passes-without and that the existing tests pass.""")
