#!/bin/bash
# tools/try_mutant.sh <property> <patch.diff> [tier] [part]  -- run a check against a scratch copy of /repo with the patch applied
set -u
prop=$1; patch=$(readlink -f "$2"); tier=${3:-quick}; part=${4:-}
d=$(mktemp -d /tmp/mrepo.XXXX)
rsync -a --exclude .git /repo/ $d/
( cd $d && patch -p1 -s -F3 < "$patch" ) || { echo "PATCH FAILED"; rm -rf $d; exit 3; }
cd /verif && VERIF_REPO=$d VERIF_REPLAY_DIR=/tmp/mut-replays ./check $prop $tier $part 2>&1 | grep -aE "VIOLATION|class:|detail:|KNOWN|vrun:|runs=" | cut -c1-400
rc=${PIPESTATUS[0]}
rm -rf $d
exit $rc
