#!/bin/bash
# tools/rep_seed.sh <scratchdir> <harness> <params-json> <seed_base> <index> <n>  -- run one seed n times in parallel
# (GOMAXPROCS varied), write traces to /tmp/tr<k>.txt and print the event-log hashes (determinism debugging aid)
D=$1; H=$2; P=$3; BASE=$4; I=$5; N=${6:-12}
B=$(ls $D/bin/*.test | head -1)
[ -n "$7" ] && B=$D/bin/$7
cd $D
for k in $(seq 1 $N); do
  ( GOMAXPROCS=$(( (k%4)*5+1 )) VSIM_TRACE=1 VSIM_HARNESS=$H VSIM_PARAMS="$P" VSIM_SEED_BASE=$BASE VSIM_START=$I VSIM_COUNT=$((I+1)) $B -test.run . 2>/dev/null | grep -a "^VSIM R" | python3 -c "
import sys,json
for l in sys.stdin:
    r=json.loads(l[7:]); open('/tmp/tr$k.txt','w').write('\n'.join(r['trace'])); print($k, r['log_hash'], r['outcome'], r.get('key',''))
" ) &
done
wait
