#!/bin/bash
# tools/seeded_matrix.sh [ids...]  -- run every seeded change against the checks named in its meta.json ("checks": ["C16", "C02:sm-signing"], default: its property)
# and record caught / missed in seeded/RESULTS.md
cd /verif
ids=${@:-$(ls seeded | grep -v RESULTS)}
for id in $ids; do
  d=seeded/$id
  [ -f $d/patch.diff ] || continue
  checks=$(python3 -c "
import json;m=json.load(open('$d/meta.json'));print(' '.join(m.get('checks',[m['property']])))")
  res=""
  for c in $checks; do
    prop=${c%%:*}; part=""; [ "$c" != "$prop" ] && part=${c#*:}
    out=$(tools/try_mutant.sh $prop $d/patch.diff quick $part 2>&1)
    if echo "$out" | grep -aq "^VIOLATION"; then
      cls=$(echo "$out" | grep -a "class:" | head -1 | sed 's/^ *class: //' | cut -c1-100)
      res="$res $c=CAUGHT($cls)"
    elif echo "$out" | grep -aq "PATCH FAILED"; then res="$res $c=PATCH-FAILED"
    elif echo "$out" | grep -aq "^vrun:"; then res="$res $c=TOOL-TROUBLE($(echo "$out" | grep -a '^vrun:' | head -1 | cut -c1-120))"
    else res="$res $c=missed"; fi
  done
  echo "$id:$res"
done
