#!/usr/bin/env python3
"""Generate /verif/MANIFEST.json from harness.json and the per-property texts below."""
import json, subprocess

H = json.load(open('/verif/harness.json'))

TEXT = {
 'C13': dict(
   technique='deterministic simulation: seeded gossip of signature proofs between replica proofs with duplication, reordering and in-flight corruption; independent signer-set oracle',
   text='Seeded search over merge orders, repetitions and corruptions of sparse and finalized proofs for both shipped schemes; every replica proof is compared after every delivery with an independently tracked signer set. Sampling, not proof: the input space (key-set sizes, subsets, corruptions) is sampled per run.',
   note='Trusts crypto/ed25519 and blst for signature validity; BLS corrupted entries are checked with set bounds; panics are observed by recover on the driving goroutine.',
   ref='4/C13'),
 'C16': dict(
   technique='deterministic simulation: seeded statement-level interleaving of client goroutines on the real memstores + porcupine linearizability check against sequential models',
   text='Every run interleaves 2-4 clients on one real store at statement/lock granularity under a seeded scheduler and checks the recorded history for linearizability against a sequential model of the documented contract (refusals included). Exploration level: schedules and operation sequences are sampled.',
   note='Trusts porcupine v1.3.0 and the hand-written sequential models (reviewed against tm/tmstore interface docs); yields are inserted by vinst at statement boundaries outside range loops.',
   ref='4/C16'),
 'C19': dict(
   technique='deterministic simulation: seeded interleaving of concurrent AddTx/Buffered/Rebase clients against the real buffer goroutine + porcupine against a sequential model',
   text='Seeded workloads over generated order-dependent transaction semantics; client calls are parked at the gchan hook so the buffer goroutine sees requests in seed-chosen order, and in half of the runs the buffer goroutine is held inside the (slow) apply function so that requests queue up while an AddTx or Rebase is half done; the invoke/return history must linearize against the sequential pending-list model.',
   note='Trusts porcupine and the sequential model; the apply function returns a poisoned state next to every error so that misuse of an error result is visible.',
   ref='4/C19'),
 'C03': dict(
   technique='deterministic simulation: 4-6 real engines with real gossip and codec under a seeded scheduler (parks at every select case, store write, strategy/driver call and message hand-off; seeded select pre-pass) with delay, reorder, duplication, replay, corruption, loss with retransmission, partitions and heals, stalls, crash-restart, header sync and Byzantine vote and proposal equivocation',
   text='Seeded search over network schedules and fault sequences of a multi-node system running the unmodified engine; agreement and contiguity of finalizations are checked at every finalize request of every correct node, agreement of the committed-header stores at every write. The net-recover part models loss with retransmission (frames to a down node are lost and resent), header sync from peers over the replayed-header channel, healing of all partitions once nothing else can run, Byzantine proposal equivocation and out-of-turn proposals, and stake that triples per height.',
   note='Correct nodes run a harness consensus strategy, application and timers; the network, Byzantine behaviour and crashes are simulated; a panic of an engine goroutine kills the worker and is classified by the runner (counted as aborted for properties other than C09). Runs are sampled, not enumerated.', ref='4/C03'),
 'C09': dict(
   technique='deterministic simulation: multi-node engine world (see C03) with crash = observation; worker exit status and silently dead component detection as oracles',
   text='Seeded search over honest and faulty multi-node schedules; any panic of an engine goroutine, any silent exit of the state machine or mirror goroutine while the engine runs, and any failing tmengine.New is a violation. The many defects found on the unchanged tree are listed individually in known_findings.json (open) or fixed by fix: commits. Parts: honest and faulty multi-node worlds, the state machine alone against a simulated mirror, and one real engine against an omnipotent adversarial environment (malformed, forged, conflicting and replayed inputs, validator rotation); a handler that makes 300 kernel requests without returning counts as wedged. Construction options (H-OPTS) are not covered.',
   note='Correct nodes run a harness consensus strategy, application and timers; the network, Byzantine behaviour and crashes are simulated; a panic of an engine goroutine kills the worker and is classified by the runner (counted as aborted for properties other than C09). Runs are sampled, not enumerated.', ref='4/C09'),
 'C02': dict(
   technique='deterministic simulation: multi-node engine world with crash-restart on the same stores; recording signer wrapper as monitor',
   text='Monitor level: across all runs and restarts the set of distinct sign bytes presented to each correct validator key per (kind, height, round) must have at most one element. The state-machine-level part adds adversarial strategy answers (also a second proposal in one round) and action store writes that fail, and checks that every signature is in the action store before it is released to the mirror and that nothing whose save failed is released; the crash enumeration of C10 restarts the validator inside rounds in which it has already voted.',
   note='Correct nodes run a harness consensus strategy, application and timers; the network, Byzantine behaviour and crashes are simulated; a panic of an engine goroutine kills the worker and is classified by the runner (counted as aborted for properties other than C09). Runs are sampled, not enumerated.', ref='4/C02'),
 'C04': dict(
   technique='deterministic simulation: multi-node engine world with crash-restart; shadow of every committed-header and mirror-store write',
   text='After every store write of every correct node: a committed height never changes hash, no gaps, each header names the stored predecessor hash, voting position monotone (in the mirror store and in the views the node publishes, across restarts too) and one above committing; once nothing is left to run the persisted position is in step with the committed-header store. The single-node adversarial part adds conflicting certificates, replays and proposals that name a foreign (also a certified foreign) predecessor for the voting and the next round; a crash-restart part walks a crash through the store writes of honest histories.',
   note='Correct nodes run a harness consensus strategy, application and timers; the network, Byzantine behaviour and crashes are simulated; a panic of an engine goroutine kills the worker and is classified by the runner (counted as aborted for properties other than C09). Runs are sampled, not enumerated.', ref='4/C04'),
 'C10': dict(
   technique='deterministic simulation with enumerated crash points: one real engine on recording store wrappers driven by a scripted honest history; process death after every store write (every write is a scheduling point), restart by tmengine.New on the same stores, peers resend; end state compared with the scripted chain',
   text='Fault enumeration over the store-write positions of seeded scripted histories (a batch of consecutive seeds shares one script and walks the crash position through writes 1..72; 25% of the runs add a second crash during recovery), plus sampled crash/restart of correct nodes in the multi-node world. Oracles: New returns no error; positions recorded after the restart are not behind the durable ones; the first published views of the resumed rounds contain every stored proposal and vote (and they verify); a recorded vote that the restarted state machine hands to its mirror again carries the sign bytes of its kind, round and target and a signature that verifies; no finalization is re-saved with other content; stored committed headers stay what was saved; once nothing is left to do the committed-header store equals the scripted chain and every decided height is finalized; proposals the strategy had been offered in a round before the stop are offered again when it re-enters that round; the persisted position ends in step with the committed-header store; a panic of the engine after a restart counts as not resumed. The scripted histories include genuine replayed headers. Not exhaustive over schedules between writes (sampled) or over histories.',
   note='The seven in-memory stores are the durable state (the store objects survive, everything else is dropped); crash = context cancellation + no further writes from the dead incarnation. Strategy, application and timers of the node are harness code; the peers are a scripted environment that resends the current round and regossips decided heights after a restart. Liveness is judged only at quiescence (nothing enabled), never by a step bound.', ref='4/C10'),
 'C11': dict(
   technique='deterministic simulation: multi-node engine world; every view is observed right after its consumer received it',
   text='Per consumer and height/round: versions strictly increase, proposals and votes only grow, a delivered view never changes afterwards, a jump-ahead never names a round the state machine has already entered; checked on every view the state machine and the gossip strategy receive under seeded relative speeds of kernel, handlers and consumers. Currency: at seeded lulls in the middle of a history (no delivery, no timer, no environment action until nothing is parked) and at the end, each mirror is asked for its own views, and gossip and the state machine (for the round it is in) must hold every vote in them.',
   note='Correct nodes run a harness consensus strategy, application and timers; the network, Byzantine behaviour and crashes are simulated; a panic of an engine goroutine kills the worker and is classified by the runner (counted as aborted for properties other than C09). Runs are sampled, not enumerated.', ref='4/C11'),
 'C05': dict(
   technique='deterministic simulation: multi-node engine world with frame corruption, replay and Byzantine-signed votes; independent crypto/ed25519 verification of every signature in views, round-store writes and gossip frames',
   text='Oracle A (authenticity) as a monitor over everything correct nodes put into views, the round store and gossip. Oracle B (a message whose signatures are all invalid, foreign, malformed or for another target is a no-op and is not reported as accepted) is decided by the single-node adversarial part, where the environment knows for every injected message what the engine may answer.',
   note='Correct nodes run a harness consensus strategy, application and timers; the network, Byzantine behaviour and crashes are simulated; a panic of an engine goroutine kills the worker and is classified by the runner (counted as aborted for properties other than C09). Runs are sampled, not enumerated.', ref='4/C05'),
 'C06': dict(
   technique='deterministic simulation: multi-node engine world with equivocating Byzantine validators; vote summaries recomputed independently in math/big for every observed view',
   text='Every view crossing to the state machine or gossip has its VoteSummary recomputed from the admitted signer bitsets with each validator counted once; any difference is a violation. The mirror\'s proposed-header fetch requests are recorded: when votes added to the voting round lift a missing header to at least a third of the power (distinct validators, full power per target) a request must have been made.',
   note='Correct nodes run a harness consensus strategy, application and timers; the network, Byzantine behaviour and crashes are simulated; a panic of an engine goroutine kills the worker and is classified by the runner (counted as aborted for properties other than C09). Runs are sampled, not enumerated.', ref='4/C06'),
 'C07': dict(
   technique='deterministic simulation: multi-node engine world with a validator-rotating application and in-flight corruption; validator sets compared element-wise with what the committed chain prescribes',
   text='The validator set in every view, strategy call and committed header of every correct node must equal the next-validator set of the header committed one height earlier (genesis at the initial height), and committed lists must hash to the hashes the block hash covers.',
   note='Correct nodes run a harness consensus strategy, application and timers; the network, Byzantine behaviour and crashes are simulated; a panic of an engine goroutine kills the worker and is classified by the runner (counted as aborted for properties other than C09). Runs are sampled, not enumerated.', ref='4/C07'),
 'C01': dict(
   technique='deterministic simulation: multi-node engine world; every commit event checked against an independently verified > 2/3 precommit certificate of the prescribed validator set',
   text='Commit events (committed-header store writes, committing views, committed headers handed to the state machine, finalize requests) are checked with crypto/ed25519 and math/big against the validator set the chain prescribes. Byzantine power is < 1/3 in this harness; certificates by foreign key sets, conflicting certificates and replayed headers (genuine, foreign-key certified, foreign predecessor, weak, corrupted) are exercised by the single-node adversarial part.',
   note='Correct nodes run a harness consensus strategy, application and timers; the network, Byzantine behaviour and crashes are simulated; a panic of an engine goroutine kills the worker and is classified by the runner (counted as aborted for properties other than C09). Runs are sampled, not enumerated.', ref='4/C01'),
 'C08': dict(
   technique='deterministic simulation: the real round state machine alone on its channel interface, with the mirror, timers, consensus strategy and driver played by a seeded scheduler; trace checked against an executable reference of the round rules',
   text='Seeded search over event orders the channel interface permits (view deliveries incl. updates that also carry a jump-ahead, timer expiries, strategy answers incl. late ones, jump-aheads, catch-up, proposed headers arriving after peers voted on them, block-data arrivals) within a legal-environment contract; the reference model checks: finalize only after a shown > 2/3 precommit quorum (or a supplied committed header), next height only after the finalization is answered and stored, round changes only with a cause, at most one DecidePrecommit per round and a due one not omitted, entrances strictly increasing, strategy calls and votes for the round they were issued in, vote targets from the strategy only.',
   note='The simulated mirror is trusted to respect the contract in DESIGN.md (section 4/C08): truthful summaries, growing views, honest peers. Runs that end in a state machine panic are counted as aborted here and reported under C09.', ref='4/C08'),
 'C12': dict(
   technique='deterministic simulation: real StandardRoundTimer on a fake clock, seeded statement-level interleaving of its goroutine with a caller issuing start/cancel/restart sequences',
   text='Part (b) of the property (production round timer): seeded search over caller scripts and over every interleaving point of the timer goroutine (selects with seeded pre-pass, yields between statements) on the synctest fake clock; oracle: no panic, cancelled never elapses, never early, every start returns, armed timers fire. Part (a) (state-machine timer discipline: at most one outstanding timer, none for a round that was left, no stale timer acted upon: a panic of the timer-elapse handler is a violation of this part) is decided by the sm-timers part on the real state machine.',
   note='The caller respects its side of the contract (no start while a timer is outstanding). A panic of the timer goroutine kills the worker process and is classified by the runner.',
   ref='4/C12'),
 'C14': dict(
   technique='deterministic simulation of the wire: generated frames of every message kind over tmjson with seeded corruption faults (bit flips, truncation, insertion, splice, structural JSON damage)',
   text='Seeded generation of values of all five message kinds (plus consensus-message wrapping) compared field by field after a clean delivery, and seeded damage of those frames offered to every Unmarshal method, which must return an error or a value and never panic. Sampling of the input space, not enumeration.',
   note='Input-quantified property; the simulator contributes the fault model of the wire, no schedule dimension. Byte fields compared by content. No coverage-guided fuzzing (outside this technique).',
   ref='4/C14'),
 'C15': dict(
   technique='deterministic simulation of in-flight tampering and signature replay: single-field header mutants and re-filed vote targets, hash / sign-bytes inequality checked at injection',
   text='Seeded man-in-the-middle faults: every run mutates exactly one hash-covered field of a generated header (20 field kinds) and requires a different block hash, checks the hash-neutral variants, and compares the sign bytes of seeded sets of vote/proposal targets pairwise (and their stability across later calls).',
   note='Input-quantified property; no schedule dimension. Validator lists are out of scope here (C07).',
   ref='4/C15'),
 'C17': dict(
   technique='deterministic simulation: real ChattyStrategy fed kernel-shaped view update sequences, broadcaster back-pressure decided by the seeded scheduler, completeness/soundness of the broadcast set at quiescence',
   text='Seeded search over view-update histories (growing votes, equivocators, nil-voted rounds, commits, skipped rounds, coalesced updates) and over the instants at which the broadcaster reads; after each update the broadcast set must cover everything handed over and nothing else.',
   note='Of a nil-voted round only the final precommits are owed. The mirror kernel is a stub here (generator); the real kernel output is monitored in the multi-node harness when present.',
   ref='4/C17'),
 'C20': dict(
   technique='deterministic simulation: real DaisyChainNetwork line A-B-C with seeded handler verdicts, handler swaps racing with arrivals (seeded select pre-pass)',
   text='In-memory half of the property: seeded search over B\'s verdicts (incl. out-of-range values), B\'s handler state over time and the interleaving of arrivals with SetConsensusHandler; C may see a message only if B\'s installed handler accepted it. The libp2p half is decided by the libp2p part when present in harness.json.',
   note='Nothing is demanded about messages that should arrive. Handlers, publisher and swapper are harness goroutines.',
   ref='4/C20'),
}

NOT_APPLICABLE = {
 'C18': 'pure integer function of one argument (ByzantineMajority/ByzantineMinority): no schedule, clock, fault or interleaving for a simulator to sample; see DESIGN.md section 5',
}

# properties not yet built are listed as not applicable *for now* with an honest reason
PENDING = 'check not built yet in this session (planned, see DESIGN.md section 4); not claimed until it runs'

props = [json.loads(l) for l in open('/verif/properties.jsonl')]
checks, na = [], []
for p in props:
    pid = p['id']
    if pid in H['properties'] and pid in TEXT:
        t = TEXT[pid]
        checks.append({
            'property_id': pid,
            'quick_cmd': f'./check {pid} quick',
            'thorough_cmd': f'./check {pid} thorough',
            'evidence_file': f'evidence/{pid}.json',
            'replay_cmd_template': './check replay {path}',
            'engine': 'vsim',
            'level_claimed': {'category': H['properties'][pid]['level'], 'text': t['text'], 'design_ref': t['ref']},
            'level_note': t['note'],
            'technique': t['technique'],
        })
    else:
        na.append({'property_id': pid, 'reason': NOT_APPLICABLE.get(pid, PENDING)})

commits = subprocess.run(['git', '-C', '/repo', 'log', '--format=%h %s'], capture_output=True, text=True).stdout.splitlines()
hooks = [c.split()[0] for c in commits if c.split(' ', 1)[1].startswith('verif hook')]

m = {
 'version': 1,
 'setup_cmd': './setup.sh',
 'hooks': {
   'guard': 'verif',
   'enable': 'go test -c -tags verif on a scratch copy of /repo (rsync of the working tree + /verif/intree + vinst instrumentation); see check / cmd/vrun',
   'baseline_off_cmd': "cd /repo && GOFLAGS=-mod=mod GOPROXY=off go test -json -vet=off -count=1 -timeout 25m ./...",
   'source_commits': hooks,
   'add_only': True,
 },
 'engines': [
   {'name': 'vsim', 'path': 'cmd/vrun, cmd/vinst, intree/', 'serves_properties': [c['property_id'] for c in checks],
    'kind_free_text': 'deterministic simulator: seeded scheduler as root goroutine of a testing/synctest bubble, parks at harness seams and gchan hook, seeded select pre-pass and yields inserted by a go/ast instrumenter on a scratch copy, choice-log replay and shrinking across worker processes'},
 ],
 'checks': checks,
 'not_applicable': na,
 'notes': 'Exit 0 = held on everything explored (open known findings are printed as KNOWN-FINDING lines, see known_findings.json); exit 1 = new violation with VIOLATION line and replay file; exit 2 = build/tool trouble, never a violation.',
}
json.dump(m, open('/verif/MANIFEST.json', 'w'), indent=1)
print('checks:', [c['property_id'] for c in checks], 'not claimed:', [n['property_id'] for n in na])
